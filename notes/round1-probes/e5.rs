use std::{cell::RefCell, collections::VecDeque, io, pin::Pin, rc::Rc, task::{Context, Poll, Waker}, time::{Duration, Instant}};
use actix_http::{body::BoxBody, HttpService, KeepAlive, Request, Response, StatusCode};
use actix_service::{fn_service, Service, ServiceFactory};
use tokio::io::{AsyncRead, AsyncWrite, ReadBuf};

#[derive(Default)]
struct Shared { rq: VecDeque<Vec<u8>>, eof: bool, written: Vec<u8>, rwaker: Option<Waker>, shutdown_calls: usize, write_block: bool, wblocked: usize }
#[derive(Clone, Default)]
struct Sock(Rc<RefCell<Shared>>);
impl Sock {
    fn push(&self, b: &[u8]) { let mut s = self.0.borrow_mut(); s.rq.push_back(b.to_vec()); if let Some(w) = s.rwaker.take() { w.wake(); } }
    fn out(&self) -> String { String::from_utf8_lossy(&self.0.borrow().written).into_owned() }
}
impl AsyncRead for Sock {
    fn poll_read(self: Pin<&mut Self>, cx: &mut Context<'_>, buf: &mut ReadBuf<'_>) -> Poll<io::Result<()>> {
        let mut s = self.0.borrow_mut();
        if let Some(c) = s.rq.pop_front() { buf.put_slice(&c); Poll::Ready(Ok(())) }
        else if s.eof { Poll::Ready(Ok(())) } else { s.rwaker = Some(cx.waker().clone()); Poll::Pending }
    }
}
impl AsyncWrite for Sock {
    fn poll_write(self: Pin<&mut Self>, _: &mut Context<'_>, b: &[u8]) -> Poll<io::Result<usize>> { let mut s = self.0.borrow_mut(); if s.write_block { s.wblocked += 1; return Poll::Pending; } s.written.extend_from_slice(b); Poll::Ready(Ok(b.len())) }
    fn poll_flush(self: Pin<&mut Self>, _: &mut Context<'_>) -> Poll<io::Result<()>> { Poll::Ready(Ok(())) }
    fn poll_shutdown(self: Pin<&mut Self>, _: &mut Context<'_>) -> Poll<io::Result<()>> { self.0.borrow_mut().shutdown_calls += 1; Poll::Pending }
}

async fn run(name: &str, ka: KeepAlive, head_to: u64, disc: u64, input: Option<&[u8]>, write_block_after_first: bool) {
    let svc = HttpService::build().keep_alive(ka)
        .client_request_timeout(Duration::from_millis(head_to)).client_disconnect_timeout(Duration::from_millis(disc))
        .h1(fn_service(|_req: Request| async move { Ok::<_, std::convert::Infallible>(Response::build(StatusCode::OK).body("hi").map_into_boxed_body() as Response<BoxBody>) }))
        .new_service(()).await.unwrap();
    let sock = Sock::default();
    if write_block_after_first { sock.0.borrow_mut().write_block = true; }
    let fut = svc.call((sock.clone(), None));
    if let Some(i) = input { sock.push(i); }
    let t0 = Instant::now();
    let r = actix_rt::time::timeout(Duration::from_secs(8), fut).await;
    let s = sock.0.borrow();
    println!("=== {name}: after {:?}: result={:?} shutdown_calls={} wblocked={} out={:?}", t0.elapsed(), r.map(|r| r.map_err(|e| e.to_string())), s.shutdown_calls, s.wblocked, String::from_utf8_lossy(&s.written).matches("HTTP/1.1").count());
    drop(s); let _ = sock.out();
}

#[actix_rt::main]
async fn main() {
    run("ka timeout 1s, disconnect 1s, shutdown never completes", KeepAlive::Timeout(Duration::from_secs(1)), 5000, 1000, Some(b"GET / HTTP/1.1\r\n\r\n"), false).await;
    run("Connection: close, disconnect 1s, shutdown never completes", KeepAlive::Timeout(Duration::from_secs(1)), 5000, 1000, Some(b"GET / HTTP/1.1\r\nConnection: close\r\n\r\n"), false).await;
    run("slow head 1s, disconnect 1s, write blocked", KeepAlive::Timeout(Duration::from_secs(5)), 1000, 1000, Some(b"GET / HT"), true).await;
}
