use actix_http::ws::{Codec, Frame, Item, ProtocolError};
use actix_codec::Decoder;
use bytes::BytesMut;
fn enc(fin: bool, op: u8, masked: bool, len: usize, rsv: u8) -> Vec<u8> {
    let mut v = vec![(if fin {0x80} else {0}) | (rsv << 4) | op];
    let m = if masked {0x80} else {0};
    if len < 126 { v.push(m | len as u8); } else if len <= 65535 { v.push(m | 126); v.extend_from_slice(&(len as u16).to_be_bytes()); } else { v.push(m | 127); v.extend_from_slice(&(len as u64).to_be_bytes()); }
    let mask = [0x11u8, 0x22, 0x33, 0x44];
    if masked { v.extend_from_slice(&mask); }
    for i in 0..len { let b = (i % 251) as u8; v.push(if masked { b ^ mask[i % 4] } else { b }); }
    v
}
#[derive(Debug, PartialEq, Clone)] enum Exp { Err, Ok }
fn main() {
    let max = 1000usize;
    let lens = [0usize, 1, 125, 126, 127, 999, 1000, 1001, 65535, 65536];
    let mut n = 0; let mut bad = 0;
    for server in [true, false] { for started in [false, true] { for fin in [true, false] { for op in 0u8..16 { for masked in [true, false] { for &len in &lens { for rsv in [0u8, 4] {
        n += 1;
        let mut codec = if server { Codec::new().max_size(max) } else { Codec::new().max_size(max).client_mode() };
        let mut buf = BytesMut::new();
        if started { buf.extend_from_slice(&enc(false, 1, server, 1, 0)); let _ = codec.decode(&mut buf); }
        buf.extend_from_slice(&enc(fin, op, masked, len, rsv));
        let r = codec.decode(&mut buf);
        let is_ctl = op >= 8; let reserved = (3..=7).contains(&op) || op >= 11;
        let exp = if masked != server || reserved || (is_ctl && (!fin || len > 125)) || len > max
                  || (op == 0 && !started) || ((op == 1 || op == 2) && started) || rsv != 0 { Exp::Err } else { Exp::Ok };
        let got = match &r { Ok(Some(_)) => Exp::Ok, Ok(None) => { println!("INCOMPLETE?? server={server} started={started} fin={fin} op={op} masked={masked} len={len}"); Exp::Err }, Err(_) => Exp::Err };
        if exp != got { bad += 1; if rsv == 0 { println!("server={server} started={started} fin={fin} op={op} masked={masked} len={len} rsv={rsv}: expected {:?} got {:?}", exp, r.map(|f| format!("{:?}", f.map(|f| match f { Frame::Text(b) => format!("Text({})", b.len()), Frame::Binary(b) => format!("Bin({})", b.len()), Frame::Continuation(i) => format!("Cont({})", match i { Item::FirstText(b) => format!("FirstText {}", b.len()), Item::FirstBinary(b) => format!("FirstBin {}", b.len()), Item::Continue(b) => format!("Continue {}", b.len()), Item::Last(b) => format!("Last {}", b.len()) }), Frame::Ping(b) => format!("Ping({})", b.len()), Frame::Pong(b) => format!("Pong({})", b.len()), Frame::Close(c) => format!("Close({:?})", c.is_some()) }))).map_err(|e: ProtocolError| e.to_string())); } }
    }}}}}}}
    println!("cases={n} mismatches={bad}");
}
