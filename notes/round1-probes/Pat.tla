---- MODULE Pat ----
EXTENDS Naturals, Sequences, FiniteSets, TLC, Json, SequencesExt
\* chars: "a","b","1","/"
Chars == {"a","b","1","/"}
MaxLen == 6
\* pattern pieces: [k |-> "lit", s |-> <<chars>>] | [k |-> "dyn", n |-> name] | [k |-> "num", n |-> name] | [k |-> "tail", n |-> name]
Lit(s) == [k |-> "lit", s |-> s]
Dyn(n) == [k |-> "dyn", n |-> n]
Num(n) == [k |-> "num", n |-> n]
TailP(n) == [k |-> "tail", n |-> n]
Patterns == {
  <<Lit(<<"/","a">>)>>,
  <<Lit(<<"/">>), Dyn("x")>>,
  <<Lit(<<"/","a","/">>), Dyn("x")>>,
  <<Lit(<<"/">>), Dyn("x"), Lit(<<"/">>), Dyn("y")>>,
  <<Lit(<<"/">>), Num("x")>>,
  <<Lit(<<"/">>), Dyn("x"), Lit(<<"1">>), Dyn("y")>>,
  <<Lit(<<"/","a","/">>), TailP("t")>>,
  <<Lit(<<"/">>), Dyn("x"), Lit(<<"/">>)>>
}
InLang(p, s) == CASE p.k = "dyn" -> Len(s) > 0 /\ \A i \in 1..Len(s) : s[i] # "/"
                 [] p.k = "num" -> Len(s) > 0 /\ \A i \in 1..Len(s) : s[i] = "1"
                 [] p.k = "tail" -> TRUE
\* all decompositions of path[from..] by pattern pieces i..; returns set of <<end, caps>>
RECURSIVE M(_,_,_,_)
M(pat, i, path, from) ==
  IF i > Len(pat) THEN {<<from - 1, <<>>>>}
  ELSE LET p == pat[i] IN
    IF p.k = "lit" THEN
      IF from + Len(p.s) - 1 <= Len(path) /\ SubSeq(path, from, from + Len(p.s) - 1) = p.s
      THEN M(pat, i+1, path, from + Len(p.s)) ELSE {}
    ELSE UNION { { <<r[1], <<SubSeq(path, from, e)>> \o r[2]>> : r \in M(pat, i+1, path, e+1) }
                 : e \in {e \in (from-1)..Len(path) : InLang(p, SubSeq(path, from, e))} }
FullMatches(pat, path) == {r \in M(pat, 1, path, 1) : r[1] = Len(path)}
PrefixMatches(pat, path) == {r \in M(pat, 1, path, 1) : r[1] = Len(path) \/ path[r[1]+1] = "/"}

VARIABLES path, done
Init == path = <<>> /\ done = FALSE
Extend == Len(path) < MaxLen /\ \E c \in Chars : path' = Append(path, c) /\ done' = FALSE
Next == Extend
Spec == Init /\ [][Next]_<<path, done>>
Emit == PrintT(<<"CASE", ToJson([path |-> path, res |-> [i \in 1..Cardinality(Patterns) |-> 0]])>>)
\* evaluate all patterns on each path (invariant evaluated once per state)
PatSeq == SetToSeq(Patterns)
Emit2 == PrintT(<<"CASE", ToJson([path |-> path, full |-> [i \in 1..Len(PatSeq) |-> SetToSeq(FullMatches(PatSeq[i], path))], pre |-> [i \in 1..Len(PatSeq) |-> SetToSeq({r[1] : r \in PrefixMatches(PatSeq[i], path)})]])>>)
Eval == \A pat \in Patterns : Cardinality(FullMatches(pat, path)) >= 0 /\ Cardinality(PrefixMatches(pat, path)) >= 0
====
