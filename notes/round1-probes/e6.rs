// Prototype: wake-driven executor + paused clock + scripted socket, driving the real h1 dispatcher.
use std::{cell::RefCell, collections::VecDeque, future::Future, io, pin::Pin, rc::Rc, sync::{Arc, atomic::{AtomicUsize, Ordering}}, task::{Context, Poll, Wake, Waker}, time::Duration};
use actix_http::{body::BoxBody, HttpService, KeepAlive, Request, Response, StatusCode};
use actix_service::{fn_service, Service, ServiceFactory};
use tokio::io::{AsyncRead, AsyncWrite, ReadBuf};

#[derive(Default)]
struct Shared { rq: VecDeque<Vec<u8>>, eof: bool, written: Vec<u8>, rwaker: Option<Waker>, wwaker: Option<Waker>, wbudget: VecDeque<Option<usize>>, log: Vec<String> }
#[derive(Clone, Default)]
struct Sock(Rc<RefCell<Shared>>);
impl AsyncRead for Sock {
    fn poll_read(self: Pin<&mut Self>, cx: &mut Context<'_>, buf: &mut ReadBuf<'_>) -> Poll<io::Result<()>> {
        let mut s = self.0.borrow_mut();
        if let Some(c) = s.rq.pop_front() { buf.put_slice(&c); s.log.push(format!("read {}", c.len())); Poll::Ready(Ok(())) }
        else if s.eof { s.log.push("read eof".into()); Poll::Ready(Ok(())) } else { s.rwaker = Some(cx.waker().clone()); s.log.push("read pending".into()); Poll::Pending }
    }
}
impl AsyncWrite for Sock {
    fn poll_write(self: Pin<&mut Self>, cx: &mut Context<'_>, b: &[u8]) -> Poll<io::Result<usize>> {
        let mut s = self.0.borrow_mut();
        match s.wbudget.pop_front() {
            Some(None) => { s.wwaker = Some(cx.waker().clone()); s.log.push(format!("write({}) pending", b.len())); Poll::Pending }
            Some(Some(k)) => { let k = k.min(b.len()); s.written.extend_from_slice(&b[..k]); s.log.push(format!("write({}) -> {}", b.len(), k)); Poll::Ready(Ok(k)) }
            None => { s.written.extend_from_slice(b); s.log.push(format!("write({}) -> all", b.len())); Poll::Ready(Ok(b.len())) }
        }
    }
    fn poll_flush(self: Pin<&mut Self>, _: &mut Context<'_>) -> Poll<io::Result<()>> { Poll::Ready(Ok(())) }
    fn poll_shutdown(self: Pin<&mut Self>, _: &mut Context<'_>) -> Poll<io::Result<()>> { self.0.borrow_mut().log.push("shutdown".into()); Poll::Ready(Ok(())) }
}
struct CountWaker(AtomicUsize);
impl Wake for CountWaker { fn wake(self: Arc<Self>) { self.0.fetch_add(1, Ordering::SeqCst); } }

fn main() {
    let rt = tokio::runtime::Builder::new_current_thread().enable_time().start_paused(true).build().unwrap();
    let local = tokio::task::LocalSet::new();
    local.block_on(&rt, async {
        let svc = HttpService::build().keep_alive(KeepAlive::Timeout(Duration::from_secs(5)))
            .client_request_timeout(Duration::from_secs(2)).client_disconnect_timeout(Duration::from_secs(1))
            .h1(fn_service(|_req: Request| async move { Ok::<_, std::convert::Infallible>(Response::build(StatusCode::OK).body("hi").map_into_boxed_body() as Response<BoxBody>) }))
            .new_service(()).await.unwrap();
        let sock = Sock::default();
        // script: partial head, write blocked once when the 408 is flushed
        sock.0.borrow_mut().rq.push_back(b"GET / HT".to_vec());
        sock.0.borrow_mut().wbudget.push_back(None);
        let mut fut = Box::pin(svc.call((sock.clone(), None)));
        let cw = Arc::new(CountWaker(AtomicUsize::new(1))); // initial poll
        let waker = Waker::from(cw.clone());
        let t0 = tokio::time::Instant::now();
        let mut polls = 0;
        for step in 0..40 {
            // poll only when woken
            while cw.0.swap(0, Ordering::SeqCst) > 0 {
                polls += 1;
                let mut cx = Context::from_waker(&waker);
                let r = fut.as_mut().poll(&mut cx);
                let lg: Vec<String> = sock.0.borrow_mut().log.drain(..).collect();
                println!("t={:?} poll#{polls} -> {:?}  io: {:?}", t0.elapsed(), match &r { Poll::Pending => "Pending".to_string(), Poll::Ready(Ok(())) => "Ready(Ok)".to_string(), Poll::Ready(Err(e)) => format!("Ready(Err({e}))") }, lg);
                if r.is_ready() { println!("written: {:?}", String::from_utf8_lossy(&sock.0.borrow().written).matches("408").count()); return; }
            }
            // environment step: at step 6 make socket writable
            if step == 6 { if let Some(w) = sock.0.borrow_mut().wwaker.take() { println!("-- env: writable"); w.wake(); } }
            tokio::time::advance(Duration::from_millis(500)).await;
            tokio::task::yield_now().await;
        }
        println!("gave up; written 408 count = {}", String::from_utf8_lossy(&sock.0.borrow().written).matches("408").count());
    });
}
