---- MODULE H1Mini ----
(* Sizing prototype of the implementation-shaped h1 dispatcher model (design round only).
   Covers: pipelined decode-ahead, connection-global codec context, handler pend, sized request
   bodies, unread-payload close rule, keep-alive decision, pop-without-keepalive-check.
   Not covered: timers, partial writes, chunked, expect, linger. *)
EXTENDS Naturals, Sequences, FiniteSets, TLC
CONSTANTS N            \* number of pipelined requests
Methods == {"GET", "HEAD"}
Conns   == {"ka", "close"}
ReqSet  == [m : Methods, c : Conns, b : 0..1, pend : 0..1, eat : BOOLEAN, rb : 0..1]
           \* b = request body units, eat = handler consumes the body, rb = response body units

VARIABLES reqs, wire, rbuf, codec, payload, drain, msgs, st, cur, hp, sendleft,
          flags, out, called, result, woken, reg, pc, peerEof
vars == <<reqs, wire, rbuf, codec, payload, drain, msgs, st, cur, hp, sendleft,
          flags, out, called, result, woken, reg, pc, peerEof>>

Units(rs) == LET F[i \in 0..N] == IF i = 0 THEN <<>> ELSE
                  F[i-1] \o <<[k |-> "H", i |-> i]>> \o [j \in 1..rs[i].b |-> [k |-> "B", i |-> i]]
             IN F[N]

Init == /\ reqs \in [1..N -> ReqSet]
        /\ wire = Units(reqs) /\ rbuf = <<>>
        /\ codec = [pl |-> 0, has |-> FALSE, head |-> FALSE, conn |-> "close"]
        /\ payload = [i |-> 0, reader |-> "none", buf |-> 0]      \* i = 0: no payload
        /\ drain = FALSE /\ msgs = <<>> /\ st = "none" /\ cur = 0 /\ hp = 0 /\ sendleft = 0
        /\ flags = {} /\ out = <<>> /\ called = <<>> /\ result = "run"
        /\ woken = TRUE /\ reg = {} /\ pc = "idle" /\ peerEof = FALSE

HasPl == payload.i # 0
\* ---------- environment ----------
ClientSend == /\ pc = "idle" /\ wire # <<>> /\ result = "run"
              /\ \E k \in 1..Len(wire) :
                    /\ rbuf' = rbuf \o SubSeq(wire, 1, k)      \* socket buffer merged with read_buf for sizing
                    /\ wire' = SubSeq(wire, k+1, Len(wire))
              /\ woken' = (woken \/ "rd" \in reg)
              /\ UNCHANGED <<reqs, codec, payload, drain, msgs, st, cur, hp, sendleft, flags, out, called, result, reg, pc, peerEof>>
ClientEof  == /\ pc = "idle" /\ wire = <<>> /\ ~peerEof /\ result = "run"
              /\ peerEof' = TRUE /\ woken' = (woken \/ "rd" \in reg)
              /\ UNCHANGED <<reqs, wire, rbuf, codec, payload, drain, msgs, st, cur, hp, sendleft, flags, out, called, result, reg, pc>>
HandlerStep == /\ pc = "idle" /\ st = "svc" /\ hp > 0 /\ result = "run"
               /\ hp' = hp - 1 /\ woken' = (woken \/ "hnd" \in reg)
               /\ UNCHANGED <<reqs, wire, rbuf, codec, payload, drain, msgs, st, cur, sendleft, flags, out, called, result, reg, pc, peerEof>>

\* ---------- one poll, block by block ----------
PollStart == /\ pc = "idle" /\ woken /\ result = "run"
             /\ woken' = FALSE /\ reg' = {}
             /\ pc' = IF "SHUTDOWN" \in flags THEN "shutdown" ELSE "request"
             /\ UNCHANGED <<reqs, wire, rbuf, codec, payload, drain, msgs, st, cur, hp, sendleft, flags, out, called, result, peerEof>>
Shutdown == /\ pc = "shutdown" /\ result' = "done" /\ pc' = "idle"
            /\ UNCHANGED <<reqs, wire, rbuf, codec, payload, drain, msgs, st, cur, hp, sendleft, flags, out, called, woken, reg, peerEof>>

CanRead == "READ_DISC" \notin flags /\ (~HasPl \/ payload.reader = "dropped" \/ payload.buf < 1)
\* service poll of request i given current state; returns "ready" | "pending"
SvcReady(i) == hp = 0 /\ (~reqs[i].eat \/ ~(HasPl /\ payload.i = i))

\* encode response head for request i using the *codec register* (this is the code's behaviour)
CloseUnread == HasPl /\ ~(payload.reader = "dropped" /\ drain)
EncHead(i) == LET closeU == CloseUnread
                  conn == IF closeU THEN "close" ELSE codec.conn
              IN [k |-> "RH", i |-> i, body |-> (~codec.head /\ reqs[i].rb > 0), conn |-> conn, closeU |-> closeU]

\* poll_request: decode one unit per step while allowed
Request == /\ pc = "request"
           /\ IF CanRead /\ rbuf # <<>> /\ Len(msgs) < 16
              THEN LET u == Head(rbuf) IN
                   IF u.k = "H" /\ ~codec.has THEN
                      /\ rbuf' = Tail(rbuf)
                      /\ codec' = [pl |-> reqs[u.i].b, has |-> reqs[u.i].b > 0, head |-> reqs[u.i].m = "HEAD", conn |-> reqs[u.i].c]
                      /\ payload' = IF reqs[u.i].b > 0 THEN [i |-> u.i, reader |-> "alive", buf |-> 0] ELSE payload
                      /\ drain' = FALSE
                      /\ IF st = "none"
                         THEN /\ st' = "svc" /\ cur' = u.i /\ hp' = reqs[u.i].pend /\ called' = Append(called, u.i)
                              /\ msgs' = msgs /\ pc' = "handle"
                         ELSE /\ msgs' = Append(msgs, u.i) /\ UNCHANGED <<st, cur, hp, called>> /\ pc' = "request"
                      /\ UNCHANGED <<sendleft, flags, out>>
                   ELSE IF u.k = "B" /\ codec.has THEN
                      /\ rbuf' = Tail(rbuf)
                      /\ LET left == codec.pl - 1 IN
                         /\ codec' = [codec EXCEPT !.pl = left, !.has = left > 0]
                         /\ payload' = IF left = 0 THEN [i |-> 0, reader |-> "none", buf |-> 0]
                                       ELSE IF payload.reader = "alive" THEN [payload EXCEPT !.buf = @ + 1] ELSE payload
                      /\ pc' = "request"
                      /\ UNCHANGED <<drain, msgs, st, cur, hp, called, sendleft, flags, out>>
                   ELSE /\ pc' = "response" /\ UNCHANGED <<rbuf, codec, payload, drain, msgs, st, cur, hp, called, sendleft, flags, out>>
              ELSE /\ pc' = "response" /\ UNCHANGED <<rbuf, codec, payload, drain, msgs, st, cur, hp, called, sendleft, flags, out>>
           /\ reg' = reg \cup {"rd"}
           /\ UNCHANGED <<reqs, wire, result, woken, peerEof>>

\* handler side effects on the payload when it is polled
HandlerTouch(i) == IF HasPl /\ payload.i = i
                   THEN IF reqs[i].eat THEN [payload EXCEPT !.buf = 0] ELSE [payload EXCEPT !.reader = "dropped"]
                   ELSE payload
SendResp(i, pl) ==  \* send_response with payload state pl
    LET closeU == pl.i # 0 /\ ~(pl.reader = "dropped" /\ drain)
        conn == IF closeU THEN "close" ELSE codec.conn
        hasBody == ~codec.head /\ reqs[i].rb > 0
        h == [k |-> "RH", i |-> i, body |-> hasBody, conn |-> conn]
    IN /\ out' = Append(out, h)
       /\ codec' = [codec EXCEPT !.conn = conn]
       /\ IF reqs[i].rb = 0
          THEN /\ st' = "none" /\ sendleft' = 0
               /\ flags' = IF closeU THEN flags \cup {"SHUTDOWN", "FINISHED"} ELSE flags \cup {"FINISHED"}
          ELSE /\ st' = "send" /\ sendleft' = reqs[i].rb /\ flags' = flags

Handle == /\ pc = "handle"      \* handle_request: eager first poll
          /\ LET pl == HandlerTouch(cur) IN
             /\ payload' = pl
             /\ IF hp = 0 /\ (~reqs[cur].eat \/ pl.i # cur)
                THEN SendResp(cur, pl)
                ELSE /\ reg' = reg \cup {"hnd"} /\ UNCHANGED <<out, codec, st, sendleft, flags>>
          /\ IF hp = 0 /\ (~reqs[cur].eat \/ HandlerTouch(cur).i # cur) THEN reg' = reg ELSE TRUE
          /\ pc' = "request"
          /\ UNCHANGED <<reqs, wire, rbuf, drain, msgs, cur, hp, called, result, woken, peerEof>>

Response == /\ pc = "response"
            /\ CASE st = "none" ->
                     IF msgs # <<>>
                     THEN /\ st' = "svc" /\ cur' = Head(msgs) /\ msgs' = Tail(msgs) /\ hp' = reqs[Head(msgs)].pend
                          /\ called' = Append(called, Head(msgs)) /\ pc' = "response"
                          /\ UNCHANGED <<payload, out, codec, sendleft, flags, reg>>
                     ELSE /\ flags' = IF ~HasPl /\ codec.conn = "ka" THEN flags \cup {"KEEP_ALIVE"} ELSE flags \ {"KEEP_ALIVE"}
                          /\ pc' = "tail"
                          /\ UNCHANGED <<payload, out, codec, sendleft, st, cur, msgs, hp, called, reg>>
                 [] st = "svc" ->
                     LET pl == HandlerTouch(cur) IN
                     /\ payload' = pl
                     /\ IF hp = 0 /\ (~reqs[cur].eat \/ pl.i # cur)
                        THEN /\ SendResp(cur, pl) /\ pc' = "response" /\ reg' = reg
                        ELSE /\ reg' = reg \cup {"hnd"} /\ pc' = "tail"     \* (re-entering poll_request elided: Request already drained rbuf)
                             /\ UNCHANGED <<out, codec, st, sendleft, flags>>
                     /\ UNCHANGED <<cur, msgs, hp, called>>
                 [] st = "send" ->
                     /\ IF sendleft > 0
                        THEN /\ out' = Append(out, [k |-> "RB", i |-> cur]) /\ sendleft' = sendleft - 1
                             /\ UNCHANGED <<st, flags>>
                        ELSE /\ out' = Append(out, [k |-> "RE", i |-> cur]) /\ st' = "none" /\ sendleft' = 0
                             /\ flags' = IF msgs = <<>> /\ CloseUnread THEN flags \cup {"SHUTDOWN", "FINISHED"} ELSE flags \cup {"FINISHED"}
                     /\ pc' = "response"
                     /\ UNCHANGED <<payload, codec, cur, msgs, hp, called, reg>>
            /\ UNCHANGED <<reqs, wire, rbuf, drain, result, woken, peerEof>>

Tail_ == /\ pc = "tail"
         /\ LET rd == peerEof /\ rbuf = <<>>
                f1 == IF rd THEN flags \cup {"READ_DISC"} ELSE flags
                f2 == IF "READ_DISC" \in f1 /\ st = "none" THEN f1 \cup {"SHUTDOWN"} ELSE f1
                f3 == IF st = "none" /\ "FINISHED" \in f2 /\ "KEEP_ALIVE" \notin f2 /\ ~HasPl
                      THEN (f2 \ {"FINISHED"}) \cup {"SHUTDOWN"} ELSE f2
            IN /\ flags' = f3
               /\ IF st = "none" /\ "SHUTDOWN" \in f3 THEN /\ result' = "done" /\ woken' = woken
                  ELSE /\ result' = result /\ woken' = woken
         /\ pc' = "idle"
         /\ UNCHANGED <<reqs, wire, rbuf, codec, payload, drain, msgs, st, cur, hp, sendleft, out, called, reg, peerEof>>

Next == ClientSend \/ ClientEof \/ HandlerStep \/ PollStart \/ Shutdown \/ Request \/ Handle \/ Response \/ Tail_
Spec == Init /\ [][Next]_vars

\* ---------------- property-level invariants over `out` and `called` ----------------
Heads == SelectSeq(out, LAMBDA e : e.k = "RH")
InOrder == \A j \in 1..Len(Heads) : Heads[j].i = j
\* FramingOwn: body presence and connection header depend only on the answered request
FramingOwn == \A j \in 1..Len(Heads) :
                 LET h == Heads[j] q == reqs[h.i] IN
                 /\ h.body = (q.m # "HEAD" /\ q.rb > 0)
                 /\ (h.conn = "close") \/ (q.c = "ka")          \* a close-request is answered with close
\* CloseIsFinal: nothing is written after a complete response that announced close
CloseIsFinal == \A j \in 1..Len(Heads) : Heads[j].conn = "close" => j = Len(Heads)
====
