CONSTANT Tracing = TRUE
SPECIFICATION Spec
INVARIANT Inv
CONSTRAINT Reach
POSTCONDITION Accepted
CHECK_DEADLOCK FALSE
