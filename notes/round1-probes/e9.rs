use std::time::Duration;
use actix_http::HttpService;
use actix_service::{map_config, Service, ServiceFactory};
use actix_web::{dev::AppConfig, http::header, middleware::Compress, web, App, HttpResponse};
#[actix_rt::main]
async fn main() {
    let app = App::new().wrap(Compress::default())
        .route("/cl", web::get().to(|| async { HttpResponse::Ok().content_type("text/plain").insert_header((header::CONTENT_LENGTH, "5000")).body(vec![b'x'; 5000]) }));
    let svc = HttpService::build().h2(map_config(app, |_| AppConfig::default())).new_service(()).await.unwrap();
    let (a, b) = tokio::io::duplex(65536);
    let srv = svc.call((a, None));
    actix_rt::spawn(async move { let _ = srv.await; });
    let (mut client, conn) = h2::client::handshake(b).await.unwrap();
    actix_rt::spawn(async move { let _ = conn.await; });
    let req = http::Request::builder().uri("http://localhost/cl").header("accept-encoding", "gzip").body(()).unwrap();
    let (resp, _) = client.send_request(req, true).unwrap();
    let r = actix_rt::time::timeout(Duration::from_millis(1000), async {
        let resp = resp.await; match resp { Err(e) => format!("head err {e}"), Ok(resp) => {
        let (parts, mut body) = resp.into_parts(); let mut n = 0usize; let mut err = None;
        while let Some(c) = body.data().await { match c { Ok(c) => { let _ = body.flow_control().release_capacity(c.len()); n += c.len(); } Err(e) => { err = Some(e.to_string()); break; } } }
        format!("status={} ce={:?} cl={:?} body_bytes={} err={:?}", parts.status, parts.headers.get("content-encoding"), parts.headers.get("content-length"), n, err) } }
    }).await;
    println!("h2 compress + user CL: {:?}", r);
}
