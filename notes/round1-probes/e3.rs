use std::time::Duration;
use actix_http::header::{HeaderMap, HeaderValue, self};
use bytes::Bytes;
use futures_util::{stream, StreamExt};
#[actix_rt::main]
async fn main() {
    use actix_multipart::Multipart;
    let mut headers = HeaderMap::new();
    headers.insert(header::CONTENT_TYPE, HeaderValue::from_static("multipart/form-data; boundary=B"));
    let body = b"--B\r\nContent-Disposition: form-data; name=\"a\"\r\n\r\nhello\r\n--B\r\nContent-Disposition: form-data; name=\"b\"\r\n\r\nworld\r\n--B--\r\n";
    let pos = body.windows(7).position(|w| w == b"hello\r\n").unwrap() + 5;
    let (tx, rx) = tokio::sync::mpsc::unbounded_channel::<Result<Bytes, actix_web::error::PayloadError>>();
    let rx = tokio_stream_wrap(rx);
    let mut mp = Multipart::new(&headers, rx);
    tx.send(Ok(Bytes::copy_from_slice(&body[..pos]))).unwrap();
    let mut f = mp.next().await.unwrap().unwrap();
    println!("chunk: {:?}", f.next().await);
    tx.send(Ok(Bytes::copy_from_slice(&body[pos..pos+4]))).unwrap();
    println!("chunk after feeding \\r\\n--: {:?}", actix_rt::time::timeout(Duration::from_millis(200), f.next()).await);
    tx.send(Ok(Bytes::copy_from_slice(&body[pos+4..]))).unwrap();
    println!("next: {:?}", actix_rt::time::timeout(Duration::from_millis(200), f.next()).await);
    println!("next: {:?}", actix_rt::time::timeout(Duration::from_millis(200), f.next()).await);
}
fn tokio_stream_wrap<T: 'static>(mut rx: tokio::sync::mpsc::UnboundedReceiver<T>) -> impl futures_core::Stream<Item = T> {
    futures_util::stream::poll_fn(move |cx| rx.poll_recv(cx))
}
