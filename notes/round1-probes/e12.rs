use std::time::Duration;
use actix_http::header::{HeaderMap, HeaderValue, self};
use bytes::Bytes;
use futures_util::{stream, StreamExt};
async fn run(name: &str, body: &'static [u8]) {
    use actix_multipart::Multipart;
    let mut headers = HeaderMap::new();
    headers.insert(header::CONTENT_TYPE, HeaderValue::from_static("multipart/form-data; boundary=B"));
    let st = stream::iter(vec![Ok::<_, actix_web::error::PayloadError>(Bytes::from_static(body))]);
    let mut mp = Multipart::new(&headers, st);
    let mut out = vec![];
    let r = actix_rt::time::timeout(Duration::from_millis(500), async {
        while let Some(f) = mp.next().await {
            match f { Ok(mut f) => { let mut data = vec![]; let mut e = None; while let Some(c) = f.next().await { match c { Ok(c) => data.extend_from_slice(&c), Err(er) => { e = Some(er.to_string()); break; } } } out.push(format!("{}={:?} err={:?}", f.name().unwrap_or("?"), String::from_utf8_lossy(&data), e)); }, Err(e) => { out.push(format!("mp err {e}")); break; } }
        }
    }).await;
    println!("{name}: timeout={} out={:?}", r.is_err(), out);
}
#[actix_rt::main]
async fn main() {
    run("truthful CL", b"--B\r\nContent-Disposition: form-data; name=\"a\"\r\nContent-Length: 5\r\n\r\nhello\r\n--B\r\nContent-Disposition: form-data; name=\"b\"\r\n\r\nworld\r\n--B--\r\n").await;
    run("CL too large (swallows next part)", b"--B\r\nContent-Disposition: form-data; name=\"a\"\r\nContent-Length: 58\r\n\r\nhello\r\n--B\r\nContent-Disposition: form-data; name=\"b\"\r\n\r\nworld\r\n--B\r\nContent-Disposition: form-data; name=\"c\"\r\n\r\nthird\r\n--B--\r\n").await;
    run("CL too small", b"--B\r\nContent-Disposition: form-data; name=\"a\"\r\nContent-Length: 2\r\n\r\nhello\r\n--B\r\nContent-Disposition: form-data; name=\"b\"\r\n\r\nworld\r\n--B--\r\n").await;
    run("content contains CRLF--Bx (boundary prefix of longer token)", b"--B\r\nContent-Disposition: form-data; name=\"a\"\r\n\r\nhel\r\n--Bxlo\r\n--B--\r\n").await;
    run("content contains CR--B (bare CR)", b"--B\r\nContent-Disposition: form-data; name=\"a\"\r\n\r\nhel\r--B\r\nlo\r\n--B--\r\n").await;
    run("no final boundary (truncated after content)", b"--B\r\nContent-Disposition: form-data; name=\"a\"\r\n\r\nhello").await;
    run("truncated inside boundary", b"--B\r\nContent-Disposition: form-data; name=\"a\"\r\n\r\nhello\r\n--").await;
}
