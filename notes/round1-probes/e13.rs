use std::{sync::atomic::{AtomicUsize, Ordering}, alloc::{GlobalAlloc, Layout, System}, io::Write};
use actix_web::{dev::Service, http::header, test, web, App};
use bytes::Bytes;
use futures_util::stream;
struct Counting; static LIVE: AtomicUsize = AtomicUsize::new(0); static PEAK: AtomicUsize = AtomicUsize::new(0);
unsafe impl GlobalAlloc for Counting {
    unsafe fn alloc(&self, l: Layout) -> *mut u8 { let p = System.alloc(l); if !p.is_null() { let n = LIVE.fetch_add(l.size(), Ordering::Relaxed) + l.size(); PEAK.fetch_max(n, Ordering::Relaxed); } p }
    unsafe fn dealloc(&self, p: *mut u8, l: Layout) { System.dealloc(p, l); LIVE.fetch_sub(l.size(), Ordering::Relaxed); }
    unsafe fn realloc(&self, p: *mut u8, l: Layout, new: usize) -> *mut u8 { let q = System.realloc(p, l, new); if !q.is_null() { if new > l.size() { let n = LIVE.fetch_add(new - l.size(), Ordering::Relaxed) + new - l.size(); PEAK.fetch_max(n, Ordering::Relaxed); } else { LIVE.fetch_sub(l.size() - new, Ordering::Relaxed); } } q }
}
#[global_allocator] static A: Counting = Counting;
#[actix_rt::main]
async fn main() {
    let app = test::init_service(App::new().app_data(web::PayloadConfig::new(262_144))
        .route("/bytes", web::post().to(|b: Bytes| async move { format!("ok {}", b.len()) }))).await;
    for mib in [1usize, 16, 64] {
        let mut enc = flate2::write::GzEncoder::new(Vec::new(), flate2::Compression::best());
        enc.write_all(&vec![0u8; mib << 20]).unwrap(); let gz = enc.finish().unwrap();
        let wire = gz.len();
        for chunk in [wire, 1024] {
            let chunks: Vec<Result<Bytes, actix_web::error::PayloadError>> = gz.chunks(chunk).map(|c| Ok(Bytes::copy_from_slice(c))).collect();
            let mut req = test::TestRequest::post().uri("/bytes").insert_header((header::CONTENT_ENCODING, "gzip")).to_request();
            *req.payload() = actix_http::Payload::Stream { payload: Box::pin(stream::iter(chunks)) };
            let base = LIVE.load(Ordering::Relaxed); PEAK.store(base, Ordering::Relaxed);
            let res = app.call(req).await.unwrap();
            println!("decoded {mib} MiB, wire {wire} B in chunks of {chunk}: status={} peak heap above baseline = {} KiB (limit 256 KiB)", res.status(), (PEAK.load(Ordering::Relaxed) - base) / 1024);
        }
    }
}
