---- MODULE Toy ----
EXTENDS Naturals, Sequences, TLC, Json, IOUtils
CONSTANT Tracing
VARIABLES pc, buf, out, l, hist

T == IF Tracing THEN ndJsonDeserialize(IOEnv.TRACE) ELSE <<>>

\* env choice: all values when model checking, the logged value when tracing
Choice(kind, All) ==
  IF Tracing THEN {x \in All : l <= Len(T) /\ T[l].ev = kind /\ T[l].val = x}
  ELSE All
Consume == l' = IF Tracing THEN l + 1 ELSE l

Init == TLCSet(1, 0) /\ pc = "read" /\ buf = 0 /\ out = <<>> /\ l = 1 /\ hist = <<>>

Read == /\ pc = "read"
        /\ \E n \in Choice("Read", 0..2) :
             /\ buf' = buf + n
             /\ hist' = Append(hist, [ev |-> "Read", val |-> n])
        /\ pc' = "proc" /\ Consume /\ UNCHANGED out

\* internal (silent) step
Proc == /\ pc = "proc"
        /\ pc' = "write" /\ UNCHANGED <<buf, out, l, hist>>

Write == /\ pc = "write"
         /\ \E k \in Choice("Write", 0..buf) :
              /\ out' = Append(out, k) /\ buf' = buf - k
              /\ hist' = Append(hist, [ev |-> "Write", val |-> k])
         /\ pc' = (IF Len(out) >= 2 THEN "done" ELSE "read") /\ Consume

Next == Read \/ Proc \/ Write
vars == <<pc, buf, out, l, hist>>
Spec == Init /\ [][Next]_vars

Inv == buf <= 6
\* replay emission
Emit == pc = "done" => PrintT(<<"REPLAY", ToJson(hist)>>)
\* trace acceptance: highest l reached
Reach == TLCSet(1, IF TLCGet(1) < l THEN l ELSE TLCGet(1))
Accepted == IF TLCGet(1) = Len(T) + 1 THEN TRUE ELSE Print(<<"REJECTED at", TLCGet(1), T[TLCGet(1)]>>, FALSE)
View == <<pc, buf, out>>
====
