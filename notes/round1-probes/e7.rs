use actix_web::{http::header, middleware::Compress, test, web, App, HttpResponse};
#[actix_rt::main]
async fn main() {
    let app = test::init_service(App::new().wrap(Compress::default())
        .route("/img", web::get().to(|| async { HttpResponse::Ok().content_type("image/png").body(vec![b'x'; 5000]) }))
        .route("/txt", web::get().to(|| async { HttpResponse::Ok().content_type("text/plain").body(vec![b'x'; 5000]) }))
        .route("/cl", web::get().to(|| async { HttpResponse::Ok().content_type("text/plain").insert_header((header::CONTENT_LENGTH, "5000")).body(vec![b'x'; 5000]) }))
    ).await;
    for (p, ae) in [("/img", "gzip, identity;q=0"), ("/txt", "gzip, identity;q=0"), ("/txt", "identity;q=0"), ("/txt", "*;q=0"), ("/txt", "br;q=0.5, *;q=0.1, gzip;q=0"), ("/cl", "gzip")] {
        let req = test::TestRequest::get().uri(p).insert_header((header::ACCEPT_ENCODING, ae)).to_request();
        let res = test::call_service(&app, req).await;
        println!("{p} AE={ae:?}: status={} CE={:?} CL={:?} size={:?}", res.status(), res.headers().get(header::CONTENT_ENCODING), res.headers().get(header::CONTENT_LENGTH), actix_web::body::MessageBody::size(res.response().body()));
    }
    // router u16
    use actix_router::{Path, ResourceDef};
    let long = format!("/{}/{}", "a".repeat(40000), "b".repeat(40000));
    let r = std::panic::catch_unwind(|| { let rd = ResourceDef::new("/{x}/{y}"); let mut p = Path::new(long.as_str()); let ok = rd.capture_match_info(&mut p); (ok, p.get("x").map(|s| s.len()), p.get("y").map(|s| s.len())) });
    println!("router 80KB path: {:?}", r.map_err(|_| "PANIC"));
    let long = format!("/{}/{}", "a".repeat(30000), "b".repeat(30000));
    let r = std::panic::catch_unwind(|| { let rd = ResourceDef::new("/{x}/{y}"); let mut p = Path::new(long.as_str()); let ok = rd.capture_match_info(&mut p); (ok, p.get("x").map(|s| s.len()), p.get("y").map(|s| s.len())) });
    println!("router 60KB path: {:?}", r.map_err(|_| "PANIC"));
}
