use std::{cell::RefCell, collections::VecDeque, io, pin::Pin, rc::Rc, task::{Context, Poll, Waker}, time::Duration};
use actix_service::fn_service;
use actix_tls::connect::{ConnectInfo, Connection, ConnectError};
use tokio::io::{AsyncRead, AsyncWrite, ReadBuf};
use actix_rt::net::{ActixStream, Ready};

#[derive(Default, Debug)]
struct Shared { rq: VecDeque<Vec<u8>>, eof: bool, written: Vec<u8>, rwaker: Option<Waker>, on_request: VecDeque<(Vec<u8>, bool)> }
#[derive(Clone, Default, Debug)]
struct Sock(Rc<RefCell<Shared>>);
impl AsyncRead for Sock {
    fn poll_read(self: Pin<&mut Self>, cx: &mut Context<'_>, buf: &mut ReadBuf<'_>) -> Poll<io::Result<()>> {
        let mut s = self.0.borrow_mut();
        if let Some(c) = s.rq.pop_front() { buf.put_slice(&c); Poll::Ready(Ok(())) }
        else if s.eof { Poll::Ready(Ok(())) } else { s.rwaker = Some(cx.waker().clone()); Poll::Pending }
    }
}
impl AsyncWrite for Sock {
    fn poll_write(self: Pin<&mut Self>, _: &mut Context<'_>, b: &[u8]) -> Poll<io::Result<usize>> {
        let mut s = self.0.borrow_mut(); s.written.extend_from_slice(b);
        if s.written.ends_with(b"\r\n\r\n") { if let Some((resp, close)) = s.on_request.pop_front() { s.rq.push_back(resp); s.eof = close; if let Some(w) = s.rwaker.take() { w.wake(); } } }
        Poll::Ready(Ok(b.len()))
    }
    fn poll_flush(self: Pin<&mut Self>, _: &mut Context<'_>) -> Poll<io::Result<()>> { Poll::Ready(Ok(())) }
    fn poll_shutdown(self: Pin<&mut Self>, _: &mut Context<'_>) -> Poll<io::Result<()>> { Poll::Ready(Ok(())) }
}
impl ActixStream for Sock {
    fn poll_read_ready(&self, _: &mut Context<'_>) -> Poll<io::Result<Ready>> { Poll::Ready(Ok(Ready::READABLE)) }
    fn poll_write_ready(&self, _: &mut Context<'_>) -> Poll<io::Result<Ready>> { Poll::Ready(Ok(Ready::WRITABLE)) }
}

#[actix_rt::main]
async fn main() {
    let opened = Rc::new(RefCell::new(Vec::<Sock>::new()));
    let scripts: Rc<RefCell<VecDeque<Vec<(Vec<u8>, bool)>>>> = Rc::new(RefCell::new(VecDeque::from(vec![
        vec![(b"HTTP/1.1 200 OK\r\nContent-Length: 10\r\n\r\nabc".to_vec(), true)],
        vec![(b"HTTP/1.1 200 OK\r\nContent-Length: 3\r\n\r\nabc".to_vec(), false), (b"HTTP/1.1 200 OK\r\nContent-Length: 3\r\n\r\ndef".to_vec(), false)],
    ])));
    let (o2, s2) = (opened.clone(), scripts.clone());
    let connector = awc::Connector::new().connector(fn_service(move |info: ConnectInfo<http::Uri>| {
        let sock = Sock::default();
        sock.0.borrow_mut().on_request = s2.borrow_mut().pop_front().unwrap_or_default().into();
        o2.borrow_mut().push(sock.clone());
        async move { Ok::<_, ConnectError>(Connection::new(info.request().clone(), sock)) }
    }));
    let client = awc::Client::builder().connector(connector).timeout(Duration::from_secs(2)).finish();
    let mut res = client.get("http://example.test/a").send().await.unwrap();
    println!("truncated CL: status={} body={:?}", res.status(), res.body().await);
    for i in 0..2 { let mut res = client.get("http://example.test/b").send().await.unwrap(); println!("req{i}: body={:?} conns_opened={}", res.body().await, opened.borrow().len()); }
}
