use actix_web::{dev::Service, guard, http::header, test, web, App, HttpRequest, HttpResponse, HttpMessage};
use bytes::Bytes;
use futures_util::{stream, StreamExt};
use std::{cell::Cell, rc::Rc};

fn dump(req: &HttpRequest, id: &str) -> HttpResponse {
    let mi: Vec<String> = req.match_info().iter().map(|(k, v)| format!("{k}={v}")).collect();
    let data = req.app_data::<&'static str>().copied().unwrap_or("-");
    let ext = req.extensions().get::<u32>().copied();
    HttpResponse::Ok().body(format!("{id} mi={mi:?} unprocessed={:?} data={data} ext={ext:?} pattern={:?} name={:?}", req.match_info().unprocessed(), req.match_pattern(), req.match_name()))
}

#[actix_rt::main]
async fn main() {
    // C09 routing probes
    let app = test::init_service(App::new()
        .app_data("root")
        .service(web::scope("/a").app_data("scopeA").guard(guard::Get())
            .service(web::resource("/{x}").to(|r: HttpRequest| async move { dump(&r, "A/x") }))
            .service(web::resource("").to(|r: HttpRequest| async move { dump(&r, "A/empty") })))
        .service(web::scope("/a").service(web::resource("/{y}").to(|r: HttpRequest| async move { dump(&r, "A2/y") })))
        .service(web::resource("/a/b").to(|r: HttpRequest| async move { dump(&r, "res /a/b") }))
        .service(web::scope("/{p}/").service(web::resource("/z").to(|r: HttpRequest| async move { dump(&r, "P//z") })).service(web::resource("z").to(|r: HttpRequest| async move { dump(&r, "P/z-noslash") })))
        .service(web::resource(["/m1", "/m2/{q}"]).route(web::get().to(|r: HttpRequest| async move { dump(&r, "multi") })))
        .default_service(web::to(|r: HttpRequest| async move { dump(&r, "DEFAULT") }))
    ).await;
    for (m, p) in [("GET","/a/1"), ("POST","/a/1"), ("GET","/a"), ("GET","/a/"), ("GET","/a/b"), ("GET","/a/b/c"), ("GET","/ab"), ("GET","/q//z"), ("GET","/q/z"), ("GET","/a%2Fb"), ("GET","/a/%61"), ("GET", "/a/x%2Fy"), ("POST","/m1"), ("GET","/m2/7"), ("GET", "//a/1")] {
        let req = test::TestRequest::default().method(m.parse().unwrap()).uri(p).to_request();
        let res = test::call_service(&app, req).await;
        let st = res.status(); let body = test::read_body(res).await;
        println!("{m} {p}: {st} {}", String::from_utf8_lossy(&body));
    }
    // C11 pool probes
    let held: Rc<Cell<Option<HttpRequest>>> = Rc::new(Cell::new(None));
    let app = test::init_service(App::new().app_data("root")
        .service(web::scope("/s/{sp}").app_data("scoped").service(web::resource("/r/{rp}").name("named").to(|r: HttpRequest| async move { r.extensions_mut().insert(7u32); dump(&r, "deep") })))
        .service(web::resource("/flat").to(|r: HttpRequest| async move { dump(&r, "flat") }))
        .default_service(web::to(|r: HttpRequest| async move { dump(&r, "DEFAULT") }))
    ).await;
    let _ = held;
    for p in ["/s/1/r/2", "/flat", "/nomatch", "/s/9/r/8", "/flat"] {
        let req = test::TestRequest::get().uri(p).to_request();
        let res = test::call_service(&app, req).await;
        let body = test::read_body(res).await;
        println!("pool {p}: {}", String::from_utf8_lossy(&body));
    }
    // C12 probes: streaming bodies without content-length
    let app = test::init_service(App::new()
        .app_data(web::PayloadConfig::new(10)).app_data(web::JsonConfig::default().limit(10)).app_data(web::FormConfig::default().limit(10))
        .route("/bytes", web::post().to(|b: Bytes| async move { format!("ok {}", b.len()) }))
        .route("/string", web::post().to(|b: String| async move { format!("ok {}", b.len()) }))
        .route("/json", web::post().to(|b: web::Json<Vec<u8>>| async move { format!("ok {}", b.len()) }))
        .route("/form", web::post().to(|b: web::Form<Vec<(String, String)>>| async move { format!("ok {}", b.len()) }))
    ).await;
    for (p, ct, body) in [("/bytes", "application/octet-stream", "0123456789"), ("/bytes", "application/octet-stream", "0123456789a"), ("/string", "text/plain", "0123456789"), ("/string", "text/plain", "0123456789a"), ("/json", "application/json", "[1,2,3,4]"), ("/json", "application/json", "[1,2,3,4,5]"), ("/form", "application/x-www-form-urlencoded", "a=1&b=2345"), ("/form", "application/x-www-form-urlencoded", "a=1&b=23456")] {
        for chunking in [vec![body.len()], vec![1; body.len()], vec![body.len() - 1, 1]] {
            let mut chunks = vec![]; let mut off = 0; for c in &chunking { chunks.push(Ok::<_, actix_web::error::PayloadError>(Bytes::copy_from_slice(&body.as_bytes()[off..off + c]))); off += c; }
            let pulled = Rc::new(Cell::new(0usize)); let p2 = pulled.clone();
            let st = stream::iter(chunks).inspect(move |_| p2.set(p2.get() + 1));
            let (req, _) = test::TestRequest::post().uri(p).insert_header((header::CONTENT_TYPE, ct)).to_http_parts();
            let _ = req;
            let mut req = test::TestRequest::post().uri(p).insert_header((header::CONTENT_TYPE, ct)).to_request();
            *req.payload() = actix_http::Payload::Stream { payload: Box::pin(st) };
            let res = app.call(req).await.unwrap();
            let stt = res.status(); let b = test::read_body(res).await;
            println!("C12 {p} len={} chunks={} -> {stt} {:?} pulled={}", body.len(), chunking.len(), String::from_utf8_lossy(&b), pulled.get());
        }
    }
}
