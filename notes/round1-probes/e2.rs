use std::{pin::Pin, task::{Context, Poll}, time::Duration};
use actix_http::{header::{HeaderMap, HeaderName, HeaderValue, self}, ws};
use bytes::{Bytes, BytesMut};
use futures_util::{stream, StreamExt};
use actix_codec::Decoder;

fn ws_exp() {
    // oversize frame: announce 1_000_000 bytes with max_size 1024, feed in pieces
    let mut codec = ws::Codec::new().max_size(1024);
    let mut buf = BytesMut::new();
    buf.extend_from_slice(&[0x82, 0x80 | 127]);
    buf.extend_from_slice(&(1_000_000u64).to_be_bytes());
    buf.extend_from_slice(&[1,2,3,4]);
    let r = codec.decode(&mut buf);
    println!("ws oversize after header: {:?} buf.len={} cap={}", r.map(|o| o.is_some()), buf.len(), buf.capacity());
    let mut fed = 0usize;
    loop {
        buf.extend_from_slice(&[0u8; 50_000]); fed += 50_000;
        match codec.decode(&mut buf) { Ok(None) => { if fed > 1_100_000 { println!("never rejected"); break; } }, r => { println!("ws oversize: result {:?} after feeding {} bytes (buffered {})", r.map(|o| o.is_some()), fed, buf.len()); break; } }
    }
    // finished text frame inside fragmented message
    let mut codec = ws::Codec::new().client_mode();
    let mut buf = BytesMut::new();
    ws::Parser::write_message(&mut buf, b"a", ws::OpCode::Text, false, false);
    ws::Parser::write_message(&mut buf, b"b", ws::OpCode::Text, true, false);
    println!("ws f1: {:?}", codec.decode(&mut buf));
    println!("ws f2 (complete text inside fragmented): {:?}", codec.decode(&mut buf));
    // close > 125
    let mut buf = BytesMut::new();
    ws::Parser::write_message(&mut buf, vec![b'x'; 126], ws::OpCode::Close, true, false);
    println!("ws close126: {:?}", codec.decode(&mut buf));
}

fn hm_exp() {
    let mut m = HeaderMap::new();
    let r = m.insert(header::ACCEPT, HeaderValue::from_static("a"));
    let res = std::panic::catch_unwind(std::panic::AssertUnwindSafe(|| r.len()));
    println!("Removed(None).len() => {:?}", res.map_err(|_| "PANIC"));
    let r = m.remove("absent");
    println!("Removed(None).size_hint() => {:?}", r.size_hint());
}

async fn mp_exp() {
    use actix_multipart::Multipart;
    let mut headers = HeaderMap::new();
    headers.insert(header::CONTENT_TYPE, HeaderValue::from_static("multipart/form-data; boundary=B"));
    let body = b"--B\r\nContent-Disposition: form-data; name=\"a\"\r\n\r\nhello\r\n--B\r\nContent-Disposition: form-data; name=\"b\"\r\n\r\nworld\r\n--B--\r\n";
    // find position of "\r\n--B" after hello
    let pos = body.windows(7).position(|w| w == b"hello\r\n").unwrap() + 5;
    for (name, cuts) in [("whole", vec![]), ("cut after \\r\\n--", vec![pos + 4]), ("cut: hello | \\r\\n-- | rest", vec![pos, pos+4]), ("cut: .. | \\r\\n- |", vec![pos, pos+3])] {
        let mut chunks: Vec<Result<Bytes, actix_web::error::PayloadError>> = vec![]; let mut last = 0;
        for c in cuts.iter().chain(std::iter::once(&body.len())) { chunks.push(Ok(Bytes::copy_from_slice(&body[last..*c]))); last = *c; }
        // insert pending between chunks
        let st = stream::iter(chunks).then(|c| async move { actix_rt::task::yield_now().await; c });
        let mut mp = Multipart::new(&headers, Box::pin(st));
        let mut out = vec![];
        let r = actix_rt::time::timeout(Duration::from_millis(500), async {
            while let Some(f) = mp.next().await {
                match f { Ok(mut f) => { let mut data = vec![]; while let Some(c) = f.next().await { match c { Ok(c) => data.extend_from_slice(&c), Err(e) => { out.push(format!("field err {e}")); break; } } } out.push(format!("{}={:?}", f.name().unwrap_or("?"), String::from_utf8_lossy(&data))); }, Err(e) => { out.push(format!("mp err {e}")); break; } }
            }
        }).await;
        println!("multipart [{name}]: timeout={} out={:?}", r.is_err(), out);
    }
    // truncated body ending in \r\n
    let body = b"--B\r\nContent-Disposition: form-data; name=\"a\"\r\n\r\nhello\r\n";
    let st = stream::iter(vec![Ok::<_, actix_web::error::PayloadError>(Bytes::from_static(body))]);
    let mut mp = Multipart::new(&headers, st);
    let mut out = vec![];
    let r = actix_rt::time::timeout(Duration::from_millis(500), async {
        while let Some(f) = mp.next().await {
            match f { Ok(mut f) => { let mut data = vec![]; while let Some(c) = f.next().await { match c { Ok(c) => data.extend_from_slice(&c), Err(e) => { out.push(format!("field err {e}")); break; } } } out.push(format!("{}={:?}", f.name().unwrap_or("?"), String::from_utf8_lossy(&data))); }, Err(e) => { out.push(format!("mp err {e}")); break; } }
        }
    }).await;
    println!("multipart [truncated after hello\\r\\n]: timeout={} out={:?}", r.is_err(), out);
}

async fn files_exp() {
    use actix_web::{test, App};
    let dir = std::env::temp_dir().join("scratch_files"); let _ = std::fs::create_dir_all(&dir);
    std::fs::write(dir.join("empty.txt"), b"").unwrap();
    std::fs::write(dir.join("one.txt"), b"x").unwrap();
    let app = test::init_service(App::new().service(actix_files::Files::new("/", &dir))).await;
    for (p, r) in [("/empty.txt", "bytes=-5"), ("/empty.txt", "bytes=0-"), ("/one.txt", "bytes=-0"), ("/one.txt", "bytes=-5"), ("/one.txt", "bytes=1-")] {
        let req = test::TestRequest::get().uri(p).insert_header((header::RANGE, r)).to_request();
        let res = std::panic::AssertUnwindSafe(test::call_service(&app, req));
        use futures_util::FutureExt;
        match res.catch_unwind().await { Ok(res) => println!("files {p} {r}: {} content-range={:?}", res.status(), res.headers().get(header::CONTENT_RANGE)), Err(_) => println!("files {p} {r}: PANIC") }
    }
}

#[actix_rt::main]
async fn main() {
    ws_exp(); hm_exp(); mp_exp().await; files_exp().await;
    let _ = (HeaderName::from_static("x"), Pin::new(&mut 0), Poll::Ready(()), std::mem::size_of::<Context>());
}
