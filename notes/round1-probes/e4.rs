use std::{pin::Pin, task::{Context, Poll}, time::Duration};
use actix_http::{body::{BodySize, MessageBody, BoxBody}, HttpService, Request, Response, StatusCode};
use actix_service::{fn_service, Service, ServiceFactory};
use bytes::Bytes;
use tokio::io::{AsyncReadExt, AsyncWriteExt};

struct EmptyChunkBody(u8);
impl MessageBody for EmptyChunkBody {
    type Error = std::convert::Infallible;
    fn size(&self) -> BodySize { BodySize::Stream }
    fn poll_next(mut self: Pin<&mut Self>, _: &mut Context<'_>) -> Poll<Option<Result<Bytes, Self::Error>>> {
        self.0 += 1;
        match self.0 { 1 => Poll::Ready(Some(Ok(Bytes::from_static(b"abc")))), 2 => Poll::Ready(Some(Ok(Bytes::new()))), 3 => Poll::Ready(Some(Ok(Bytes::from_static(b"def")))), _ => Poll::Ready(None) }
    }
}

async fn awc_exp() {
    let lst = tokio::net::TcpListener::bind("127.0.0.1:0").await.unwrap();
    let addr = lst.local_addr().unwrap();
    actix_rt::spawn(async move {
        loop {
            let (mut s, _) = lst.accept().await.unwrap();
            actix_rt::spawn(async move {
                let mut buf = [0u8; 1024]; let n = s.read(&mut buf).await.unwrap();
                let req = String::from_utf8_lossy(&buf[..n]).to_string();
                if req.contains("/cl") { s.write_all(b"HTTP/1.1 200 OK\r\nContent-Length: 10\r\n\r\nabc").await.unwrap(); }
                else { s.write_all(b"HTTP/1.1 200 OK\r\nTransfer-Encoding: chunked\r\n\r\n5\r\nab").await.unwrap(); }
                s.flush().await.unwrap();
                actix_rt::time::sleep(Duration::from_millis(50)).await;
                drop(s);
            });
        }
    });
    let client = awc::Client::default();
    for p in ["/cl", "/chunked"] {
        let mut res = client.get(format!("http://{}{}", addr, p)).send().await.unwrap();
        let body = res.body().await;
        println!("awc {p}: status={} body={:?}", res.status(), body);
    }
}

async fn h2_exp() {
    let svc = HttpService::build()
        .h2(fn_service(|req: Request| async move {
            let p = req.path().to_owned();
            let res: Response<BoxBody> = if p.starts_with("/empty") {
                Response::build(StatusCode::OK).body(EmptyChunkBody(0)).map_into_boxed_body()
            } else if p.starts_with("/304") {
                Response::build(StatusCode::NOT_MODIFIED).body("BODY304").map_into_boxed_body()
            } else if p.starts_with("/cl") {
                Response::build(StatusCode::OK).insert_header(("content-length", "999")).body(EmptyChunkBody(2)).map_into_boxed_body()
            } else { Response::build(StatusCode::OK).body("hello").map_into_boxed_body() };
            Ok::<_, std::convert::Infallible>(res)
        }))
        .new_service(()).await.unwrap();
    let (a, b) = tokio::io::duplex(65536);
    let srv = svc.call((a, None));
    actix_rt::spawn(async move { let r = srv.await; println!("h2 server conn done: {:?}", r.map_err(|e| e.to_string())); });
    let (mut client, conn) = h2::client::handshake(b).await.unwrap();
    actix_rt::spawn(async move { let _ = conn.await; });
    for p in ["/hello", "/empty", "/hello"] {
        let req = http::Request::builder().uri(format!("http://localhost{}", p)).body(()).unwrap();
        let (resp, _) = client.send_request(req, true).unwrap();
        let r = actix_rt::time::timeout(Duration::from_millis(1000), async {
            let resp = resp.await.unwrap();
            let (parts, mut body) = resp.into_parts();
            let mut data = vec![];
            while let Some(c) = body.data().await { let c = c.unwrap(); let _ = body.flow_control().release_capacity(c.len()); data.extend_from_slice(&c); }
            (parts.status, parts.headers.get("content-length").cloned(), String::from_utf8_lossy(&data).to_string())
        }).await;
        println!("h2 {p}: {:?}", r);
    }
}

#[actix_rt::main]
async fn main() { h2_exp().await; }
