CONSTANT N = 2
SPECIFICATION Spec
INVARIANT InOrder
CHECK_DEADLOCK FALSE
