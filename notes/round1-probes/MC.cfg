CONSTANT Tracing = FALSE
SPECIFICATION Spec
INVARIANT Inv Emit
VIEW View
CHECK_DEADLOCK FALSE
