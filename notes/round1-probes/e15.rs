use actix_web::{test, App};
use futures_util::FutureExt;
#[actix_rt::main]
async fn main() {
    let base = std::env::temp_dir().join("c16probe"); let _ = std::fs::remove_dir_all(&base);
    let root = base.join("root"); std::fs::create_dir_all(root.join("a/a")).unwrap();
    std::fs::write(base.join("canary.txt"), b"CANARY").unwrap();
    std::fs::write(root.join("ok.txt"), b"OK").unwrap(); std::fs::write(root.join("a/ok.txt"), b"OK").unwrap(); std::fs::write(root.join("a/a/ok.txt"), b"OK").unwrap();
    std::fs::write(root.join("canary.txt"), b"INSIDE").unwrap();
    let segs = ["a", "..", ".", "", "%2e%2e", "%2E.", ".%2e", "%2f", "..%2f", "%2e%2e%2f", "%5c", "..%5c", "..%5c..", "%00", "..%00", ".hidden", "%c0%af", "%c0%ae%c0%ae", "%252e%252e", "..;", "....", "%2e"];
    let app = test::init_service(App::new().service(actix_files::Files::new("/", &root).use_hidden_files())).await;
    let app2 = test::init_service(App::new().service(actix_files::Files::new("/s", &root))).await;
    let mut n = 0usize; let mut leaks = 0usize; let mut panics = 0usize; let mut statuses = std::collections::BTreeMap::new();
    let mut stack: Vec<Vec<&str>> = vec![vec![]];
    for _ in 0..3 { let mut next = vec![]; for p in &stack { for s in &segs { let mut q = p.clone(); q.push(*s); next.push(q); } } stack.extend(next.clone()); stack.sort(); stack.dedup(); }
    for pre in &stack {
        for (prefix, which) in [("", 0), ("/s", 1)] {
            let mut path = String::from(prefix); for s in pre { path.push('/'); path.push_str(s); } path.push_str("/canary.txt");
            let uri: Result<actix_web::http::Uri, _> = path.parse(); if uri.is_err() { continue; }
            n += 1;
            let req = test::TestRequest::get().uri(&path).to_request();
            let fut = async { if which == 0 { test::call_service(&app, req).await } else { test::call_service(&app2, req).await } };
            match std::panic::AssertUnwindSafe(fut).catch_unwind().await {
                Ok(res) => { let st = res.status(); *statuses.entry(st.as_u16()).or_insert(0usize) += 1; let body = test::read_body(res).await; if body.as_ref() == b"CANARY" { leaks += 1; println!("LEAK via {path}"); } }
                Err(_) => { panics += 1; if panics < 10 { println!("PANIC on {path}"); } }
            }
        }
    }
    println!("requests={n} leaks={leaks} panics={panics} statuses={statuses:?}");
}
