// C05 probe: peer pipelines tiny GETs forever and never reads responses.
use std::{cell::RefCell, io, pin::Pin, rc::Rc, task::{Context, Poll, Waker}, time::Duration, sync::atomic::{AtomicUsize, Ordering}, alloc::{GlobalAlloc, Layout, System}};
use actix_http::{body::BoxBody, HttpService, Request, Response, StatusCode};
use actix_service::{fn_service, Service, ServiceFactory};
use tokio::io::{AsyncRead, AsyncWrite, ReadBuf};

struct Counting; static LIVE: AtomicUsize = AtomicUsize::new(0); static PEAK: AtomicUsize = AtomicUsize::new(0);
unsafe impl GlobalAlloc for Counting {
    unsafe fn alloc(&self, l: Layout) -> *mut u8 { let p = System.alloc(l); if !p.is_null() { let n = LIVE.fetch_add(l.size(), Ordering::Relaxed) + l.size(); PEAK.fetch_max(n, Ordering::Relaxed); } p }
    unsafe fn dealloc(&self, p: *mut u8, l: Layout) { System.dealloc(p, l); LIVE.fetch_sub(l.size(), Ordering::Relaxed); }
    unsafe fn realloc(&self, p: *mut u8, l: Layout, new: usize) -> *mut u8 { let q = System.realloc(p, l, new); if !q.is_null() { if new > l.size() { let n = LIVE.fetch_add(new - l.size(), Ordering::Relaxed) + new - l.size(); PEAK.fetch_max(n, Ordering::Relaxed); } else { LIVE.fetch_sub(l.size() - new, Ordering::Relaxed); } } q }
}
#[global_allocator] static A: Counting = Counting;

#[derive(Default)]
struct Shared { to_send: usize, sent: usize, accepted: usize, rwaker: Option<Waker>, reads: usize }
#[derive(Clone, Default)]
struct Sock(Rc<RefCell<Shared>>);
const REQ: &[u8] = b"GET / HTTP/1.1\r\n\r\n";
impl AsyncRead for Sock {
    fn poll_read(self: Pin<&mut Self>, cx: &mut Context<'_>, buf: &mut ReadBuf<'_>) -> Poll<io::Result<()>> {
        let mut s = self.0.borrow_mut();
        // deliver one 16 KiB burst per wake (whole requests), then Pending
        if s.sent >= s.to_send { s.rwaker = Some(cx.waker().clone()); return Poll::Pending; }
        if s.reads % 2 == 1 { s.reads += 1; s.rwaker = Some(cx.waker().clone()); cx.waker().wake_by_ref(); return Poll::Pending; }
        s.reads += 1;
        let n = (buf.remaining() / REQ.len()).min(900);
        for _ in 0..n { buf.put_slice(REQ); }
        s.sent += n * REQ.len();
        Poll::Ready(Ok(()))
    }
}
impl AsyncWrite for Sock {
    fn poll_write(self: Pin<&mut Self>, _: &mut Context<'_>, _b: &[u8]) -> Poll<io::Result<usize>> { Poll::Pending } // peer never reads
    fn poll_flush(self: Pin<&mut Self>, _: &mut Context<'_>) -> Poll<io::Result<()>> { Poll::Ready(Ok(())) }
    fn poll_shutdown(self: Pin<&mut Self>, _: &mut Context<'_>) -> Poll<io::Result<()>> { Poll::Ready(Ok(())) }
}

#[actix_rt::main]
async fn main() {
    for total in [1usize << 20, 4 << 20, 16 << 20] {
        let calls = Rc::new(std::cell::Cell::new(0usize)); let c2 = calls.clone();
        let svc = HttpService::build().client_request_timeout(Duration::from_secs(60))
            .h1(fn_service(move |_req: Request| { c2.set(c2.get() + 1); async move { Ok::<_, std::convert::Infallible>(Response::build(StatusCode::NO_CONTENT).finish().map_into_boxed_body() as Response<BoxBody>) } }))
            .new_service(()).await.unwrap();
        let sock = Sock::default(); sock.0.borrow_mut().to_send = total;
        let base = LIVE.load(Ordering::Relaxed); PEAK.store(base, Ordering::Relaxed);
        let fut = svc.call((sock.clone(), None));
        let _ = actix_rt::time::timeout(Duration::from_secs(3), fut).await;
        println!("peer sent {} bytes of pipelined GETs, socket accepted 0 response bytes: service calls={} heap high-water above baseline={} KiB", sock.0.borrow().sent, calls.get(), (PEAK.load(Ordering::Relaxed) - base) / 1024);
    }
}
