use std::time::Duration;
use actix_http::{body::{BodyStream, BoxBody}, HttpService, Request, Response, StatusCode};
use actix_service::{fn_service, Service, ServiceFactory};
use bytes::Bytes;
use futures_util::stream;

#[actix_rt::main]
async fn main() {
    let svc = HttpService::build()
        .h2(fn_service(|req: Request| async move {
            let p = req.path().to_owned();
            let chunks: Vec<usize> = if p == "/big" { vec![100_000] } else if p == "/mix" { vec![1, 16_383, 16_384, 16_385, 40_000, 7] } else { vec![5] };
            let st = stream::iter(chunks.into_iter().map(|n| Ok::<_, std::convert::Infallible>(Bytes::from(vec![b'x'; n]))));
            Ok::<_, std::convert::Infallible>(Response::build(StatusCode::OK).body(BodyStream::new(st)).map_into_boxed_body() as Response<BoxBody>)
        }))
        .new_service(()).await.unwrap();
    for win in [1u32, 7, 16_384, 65_535] {
        let (a, b) = tokio::io::duplex(1 << 20);
        let srv = svc.call((a, None));
        actix_rt::spawn(async move { let _ = srv.await; });
        let (mut client, conn) = h2::client::Builder::new().initial_window_size(win).initial_connection_window_size(65_535).handshake::<_, Bytes>(b).await.unwrap();
        actix_rt::spawn(async move { let _ = conn.await; });
        // stream A: never released (stalled); stream B, C: released per chunk
        let (ra, _) = client.send_request(http::Request::builder().uri("http://l/big").body(()).unwrap(), true).unwrap();
        let mut held = None;
        if win >= 7 { held = Some(actix_rt::time::timeout(Duration::from_millis(200), ra).await); }
        for p in ["/big", "/mix", "/small"] {
            let (resp, _) = client.send_request(http::Request::builder().uri(format!("http://l{p}")).body(()).unwrap(), true).unwrap();
            let r = actix_rt::time::timeout(Duration::from_millis(3000), async {
                let resp = resp.await.unwrap(); let (_, mut body) = resp.into_parts(); let mut n = 0usize; let mut frames = 0usize; let mut maxf = 0usize;
                while let Some(c) = body.data().await { let c = c.unwrap(); n += c.len(); frames += 1; maxf = maxf.max(c.len()); body.flow_control().release_capacity(c.len()).unwrap(); }
                (n, frames, maxf)
            }).await;
            println!("window={win} {p} with a stalled sibling stream: {:?}", r);
        }
        drop(held);
    }
}
