use std::{cell::RefCell, collections::VecDeque, io, pin::Pin, rc::Rc, task::{Context, Poll, Waker}, time::Duration};
use actix_http::{body::{BodySize, MessageBody, BoxBody}, HttpService, Request, Response, StatusCode};
use actix_service::{fn_service, Service, ServiceFactory};
use bytes::Bytes;
use tokio::io::{AsyncRead, AsyncWrite, ReadBuf};

#[derive(Default)]
struct Shared { rq: VecDeque<Vec<u8>>, eof: bool, written: Vec<u8>, rwaker: Option<Waker>, shutdown: bool }
#[derive(Clone, Default)]
struct Sock(Rc<RefCell<Shared>>);
impl Sock {
    fn push(&self, b: &[u8]) { let mut s = self.0.borrow_mut(); s.rq.push_back(b.to_vec()); if let Some(w) = s.rwaker.take() { w.wake(); } }
    fn close(&self) { let mut s = self.0.borrow_mut(); s.eof = true; if let Some(w) = s.rwaker.take() { w.wake(); } }
    fn out(&self) -> String { String::from_utf8_lossy(&self.0.borrow().written).into_owned() }
}
impl AsyncRead for Sock {
    fn poll_read(self: Pin<&mut Self>, cx: &mut Context<'_>, buf: &mut ReadBuf<'_>) -> Poll<io::Result<()>> {
        let mut s = self.0.borrow_mut();
        if let Some(mut c) = s.rq.pop_front() {
            let n = c.len().min(buf.remaining());
            buf.put_slice(&c[..n]);
            if n < c.len() { let rest = c.split_off(n); s.rq.push_front(rest); }
            Poll::Ready(Ok(()))
        } else if s.eof { Poll::Ready(Ok(())) } else { s.rwaker = Some(cx.waker().clone()); Poll::Pending }
    }
}
impl AsyncWrite for Sock {
    fn poll_write(self: Pin<&mut Self>, _: &mut Context<'_>, b: &[u8]) -> Poll<io::Result<usize>> { self.0.borrow_mut().written.extend_from_slice(b); Poll::Ready(Ok(b.len())) }
    fn poll_flush(self: Pin<&mut Self>, _: &mut Context<'_>) -> Poll<io::Result<()>> { Poll::Ready(Ok(())) }
    fn poll_shutdown(self: Pin<&mut Self>, _: &mut Context<'_>) -> Poll<io::Result<()>> { self.0.borrow_mut().shutdown = true; Poll::Ready(Ok(())) }
}

struct EmptyChunkBody(u8);
impl MessageBody for EmptyChunkBody {
    type Error = std::convert::Infallible;
    fn size(&self) -> BodySize { BodySize::Stream }
    fn poll_next(mut self: Pin<&mut Self>, _: &mut Context<'_>) -> Poll<Option<Result<Bytes, Self::Error>>> {
        self.0 += 1;
        match self.0 { 1 => Poll::Ready(Some(Ok(Bytes::from_static(b"abc")))), 2 => Poll::Ready(Some(Ok(Bytes::new()))), 3 => Poll::Ready(Some(Ok(Bytes::from_static(b"def")))), _ => Poll::Ready(None) }
    }
}

async fn run(name: &str, input: Vec<&[u8]>, gap_ms: u64) {
    let svc = HttpService::build()
        .client_request_timeout(Duration::from_secs(2))
        .finish(fn_service(|req: Request| async move {
            let p = req.path().to_owned();
            if p.starts_with("/slow") { actix_rt::time::sleep(Duration::from_millis(50)).await; }
            let res: Response<BoxBody> = if p.starts_with("/204") {
                Response::build(StatusCode::NO_CONTENT).body("BODY204").map_into_boxed_body()
            } else if p.starts_with("/304") {
                Response::build(StatusCode::NOT_MODIFIED).body("BODY304").map_into_boxed_body()
            } else if p.starts_with("/empty") {
                Response::build(StatusCode::OK).body(EmptyChunkBody(0)).map_into_boxed_body()
            } else {
                Response::build(StatusCode::OK).body(format!("hello:{}", p)).map_into_boxed_body()
            };
            Ok::<_, std::convert::Infallible>(res)
        }))
        .tcp_auto_h2c();
    let _ = svc; // unused
    let svc = HttpService::build()
        .client_request_timeout(Duration::from_secs(2))
        .h1(fn_service(|req: Request| async move {
            let p = req.path().to_owned();
            if p.starts_with("/slow") { actix_rt::time::sleep(Duration::from_millis(50)).await; }
            let res: Response<BoxBody> = if p.starts_with("/204") {
                Response::build(StatusCode::NO_CONTENT).body("BODY204").map_into_boxed_body()
            } else if p.starts_with("/304") {
                Response::build(StatusCode::NOT_MODIFIED).body("BODY304").map_into_boxed_body()
            } else if p.starts_with("/empty") {
                Response::build(StatusCode::OK).body(EmptyChunkBody(0)).map_into_boxed_body()
            } else {
                Response::build(StatusCode::OK).body(format!("hello:{}", p)).map_into_boxed_body()
            };
            Ok::<_, std::convert::Infallible>(res)
        }))
        .new_service(()).await.unwrap();
    let sock = Sock::default();
    let fut = svc.call((sock.clone(), None));
    let s2 = sock.clone();
    let input: Vec<Vec<u8>> = input.into_iter().map(|b| b.to_vec()).collect();
    let feeder = async move {
        for seg in input { s2.push(&seg); actix_rt::time::sleep(Duration::from_millis(gap_ms)).await; }
        actix_rt::time::sleep(Duration::from_millis(300)).await;
        s2.close();
    };
    let (r, _) = futures_util::future::join(actix_rt::time::timeout(Duration::from_secs(3), fut), feeder).await;
    println!("=== {name}: result={:?}\n{}", r.map(|r| r.map_err(|e| e.to_string())), sock.out().replace("\r\n", "\\r\\n\n"));
}

#[actix_rt::main]
async fn main() {
    run("C02 GET slow then HEAD pipelined", vec![b"GET /slow HTTP/1.1\r\n\r\nHEAD /b HTTP/1.1\r\n\r\n"], 1).await;
    run("C02 HEAD slow then GET", vec![b"HEAD /slow HTTP/1.1\r\n\r\n", b"GET /b HTTP/1.1\r\n\r\n"], 5).await;
    run("C02 GET slow 1.1 then GET 1.0", vec![b"GET /slow HTTP/1.1\r\n\r\n", b"GET /b HTTP/1.0\r\n\r\n"], 5).await;
    run("C02 204 with body then GET", vec![b"GET /204 HTTP/1.1\r\n\r\nGET /b HTTP/1.1\r\n\r\n"], 1).await;
    run("C02 304 with body then GET", vec![b"GET /304 HTTP/1.1\r\n\r\nGET /b HTTP/1.1\r\n\r\n"], 1).await;
    run("C02 empty chunk body", vec![b"GET /empty HTTP/1.1\r\n\r\n"], 1).await;
    run("C03 close then pipelined", vec![b"GET /a HTTP/1.1\r\nConnection: close\r\n\r\nGET /b HTTP/1.1\r\n\r\n"], 1).await;
    run("C03 slow close then pipelined", vec![b"GET /slow HTTP/1.1\r\nConnection: close\r\n\r\n", b"GET /b HTTP/1.1\r\n\r\n"], 5).await;
    run("C01 empty chunk size", vec![b"POST /a HTTP/1.1\r\nTransfer-Encoding: chunked\r\n\r\n\r\n\r\nGET /b HTTP/1.1\r\n\r\n"], 1).await;
}
