#!/bin/bash
# Runs the quick check of each seeded defect's property against a tree with that defect applied.
# usage: lib/seedrun.sh <seed ids...>     (REPO defaults to $VP_RUN_REPO or /repo)
cd "$(dirname "$0")/.."
REPO=${VP_RUN_REPO:-/repo}
if [ "$REPO" != "/repo" ]; then sed -i "s#\"/repo/#\"$REPO/#g" harness/Cargo.toml; sed -i "s#path = \"/repo/#path = \"$REPO/#g" harness/Cargo.toml; fi
mkdir -p out
for s in "$@"; do
  pid=${s%%-*}
  if [ ! -f seeded/$s/patch.diff ]; then echo "SEED $s: no patch"; continue; fi
  if ! patch -p1 --dry-run -s -d $REPO < seeded/$s/patch.diff >/dev/null 2>&1; then echo "SEED $s: patch does not apply"; continue; fi
  patch -p1 -s -d $REPO < seeded/$s/patch.diff
  t0=$(date +%s)
  ./check $pid --tier ${SEED_TIER:-quick} > out/seed-$s.log 2>&1; rc=$?
  patch -R -p1 -s -d $REPO < seeded/$s/patch.diff
  sig=$(grep -A1 '^VIOLATION' out/seed-$s.log | grep signature | head -3 | cut -c1-160 | tr '\n' ';')
  echo "SEED $s: rc=$rc $(( $(date +%s) - t0 ))s $sig"
done
