#!/usr/bin/env python3
"""Prints the per-property status table of DESIGN.md 8.2 from the evidence files of the last run."""
import json, glob, os
ROOT = os.path.dirname(os.path.dirname(os.path.abspath(__file__)))
print("| id | level | TLC runs (distinct states) | cases run on the real code | events validated | recorded findings printed |")
print("|----|-------|---------------------------|----------------------------|------------------|---------------------------|")
for f in sorted(glob.glob(os.path.join(ROOT, "evidence", "C*.json"))):
    d = json.load(open(f)); c = d["coverage"]
    runs = "; ".join("%s %s" % (r["run"].replace("MC_", "").replace(".cfg", ""), format(r["distinct_states"], ",").replace(",", " ")) for r in c.get("tlc_runs", []))
    print("| %s | %s | %s | %s | %s | %d |" % (d["property_id"], d["level"], runs, format(c.get("traces_validated_against_impl", 0), ",").replace(",", " "),
                                              format(c.get("evaluations", 0), ",").replace(",", " "), len(d.get("known_findings_seen", []))))
