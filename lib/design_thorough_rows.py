#!/usr/bin/env python3
"""Replaces, in the thorough-tier table of DESIGN.md 8.2, the rows of the properties whose evidence file was last written by a
thorough run (the other rows stay as measured by the last complete thorough run)."""
import json, glob, os, subprocess
ROOT = os.path.dirname(os.path.dirname(os.path.abspath(__file__)))
rows = {}
for line in subprocess.run(["python3", os.path.join(ROOT, "lib", "design_table.py")], capture_output=True, text=True).stdout.split("\n"):
    if line.startswith("| C"):
        rows[line.split("|")[1].strip()] = line
thor = {json.load(open(f))["property_id"] for f in glob.glob(os.path.join(ROOT, "evidence", "C*.json")) if json.load(open(f)).get("tier") == "thorough"}
p = os.path.join(ROOT, "DESIGN.md")
L = open(p).read().split("\n")
i = next(k for k, l in enumerate(L) if l.startswith("Thorough tier (last complete run"))
k = i + 1
n = 0
while k < len(L) and (L[k].startswith("|") or not L[k].strip()):
    pid = L[k].split("|")[1].strip() if L[k].startswith("| C") else None
    if pid in thor:
        L[k] = rows[pid]; n += 1
    k += 1
open(p, "w").write("\n".join(L))
print("rows replaced:", n, sorted(thor))
