"""C18 HeaderMap: order-preserving multimap under every operation sequence."""
import json
import os
import random

import vlib

AREA = "headermap"


def mc_cfg(tier):
    return "MC_quick.cfg" if tier == "quick" else "MC_thorough.cfg"


def random_cases(seed, runs, length, spellings=("a", "A", "b", "B", "c"), values=(1, 2, 3)):
    rnd = random.Random(seed)
    cases = []
    for _ in range(runs):
        ops = []
        shadow = []  # pairs known to be in the map, for from_http items
        for _ in range(length):
            o = rnd.choice(["insert", "append", "append", "remove", "get", "get_mut", "stat", "iter", "into_iter", "keys",
                            "drain", "retain", "clear", "to_http", "from_http", "append", "insert"])
            op = {"op": o}
            if o in ("insert", "append", "remove", "get", "get_mut"):
                op["k"] = rnd.choice(spellings)
            if o in ("insert", "append", "get_mut"):
                op["v"] = rnd.choice(values)
            if o == "drain":
                op["c"] = rnd.choice([0, 1, 2, 3, 5, 99])
            if o == "retain":
                op["p"] = rnd.choice(["all", "none", "v1", "notv1", "ka", "notka"])
            if o == "from_http":
                n = rnd.randint(0, 6)
                op["items"] = [[rnd.choice(["a", "b", "c"]), rnd.choice(values)] for _ in range(n)]
            ops.append(op)
        cases.append({"ops": ops})
    return cases


def directed_cases():
    """multi-value names (3-6 values) with predicates that reject first / middle / last values; conversions with several multi-value names"""
    cases = []
    for vals in ([1, 2, 3], [2, 1, 3], [3, 2, 1], [1, 1, 2, 3], [2, 3, 1, 2, 1, 3]):
        for p in ("v1", "notv1", "ka", "notka", "none"):
            for k in ("a", "B"):
                ops = [{"op": "append", "k": k, "v": v} for v in vals] + [{"op": "append", "k": "c", "v": 2}, {"op": "retain", "p": p},
                       {"op": "get", "k": k}, {"op": "iter"}, {"op": "stat"}, {"op": "drain", "c": 99}]
                cases.append({"ops": ops})
    for items in ([["a", 1], ["b", 1], ["b", 2], ["c", 3], ["c", 1], ["c", 2]], [["b", 2], ["a", 1], ["b", 1], ["a", 3], ["b", 3]]):
        cases.append({"ops": [{"op": "from_http", "items": items}, {"op": "get", "k": "a"}, {"op": "get", "k": "b"}, {"op": "get", "k": "c"},
                              {"op": "iter"}, {"op": "to_http"}, {"op": "stat"}]})
    return cases


def corrupt(trace_events):
    """Binding self-test: flips one observed field of a recorded trace (DESIGN.md 2.6)."""
    out = [dict(e) for e in trace_events]
    for e in out:
        if e.get("op") == "stat":
            e["len"] = e["len"] + 1
            return out
    return None


def run_cases(rep, binpath, cases, tag, timeout=900):
    wd = rep.workdir
    cpath = os.path.join(wd, "cases-%s.ndjson" % tag)
    tpath = os.path.join(wd, "trace-%s.ndjson" % tag)
    vlib.write_ndjson(cpath, cases)
    vlib.run_conform(binpath, [AREA, "replay", cpath, tpath])
    by_run = {i + 1: c for i, c in enumerate(cases)}
    res, n_events = vlib.validate_traces(rep, AREA, "HeaderMapTrace", "Trace.cfg", tpath, wd, by_run, timeout=timeout)
    rep.cov["traces_validated_against_impl"] += len(cases)
    rep.cov["evaluations"] += n_events
    return tpath, res


def run(rep):
    quick = rep.tier == "quick"
    # 1. design level: the implementation-shaped model refines the monitor; cases are emitted
    res = vlib.run_tlc(AREA, "HeaderMapMC", mc_cfg(rep.tier), rep.workdir, workers=4 if quick else 8,
                       timeout=600 if quick else 3000, coverage=False)
    vlib.tlc_ok(res, "HeaderMapMC")
    rep.add_tlc("HeaderMapMC/" + mc_cfg(rep.tier), res, exhaustive=True)
    if res.distinct < 500 or not res.cases:
        raise vlib.ToolError("HeaderMapMC explored suspiciously little (%d states)" % res.distinct)
    cases = res.cases
    rep.cov["distinct_nontrivial"] = len(cases)
    rep.cov["rule"] = ("TLC enumerates every reachable (map content, last operation) pair of HeaderMapMC within the bounds of "
                       "the config and prints the shortest operation history reaching it; each history is replayed on the real "
                       "HeaderMap; distinct = distinct histories; plus seeded random long sequences")
    rep.cov["exhaustive"] = True
    for c in cases[:2] + cases[-2:]:
        rep.sample(c)
    # 2. build + spec -> impl replay, validated by the Ref monitor
    binpath = vlib.build_harness(rep.workdir)
    tpath, _ = run_cases(rep, binpath, cases, "gen")
    # 3. impl -> spec: long random sequences
    rc = random_cases(rep.seed, 120 if quick else 1200, 200 if quick else 600) + directed_cases()
    rep.sample({"random_case_ops": rc[0]["ops"][:12]})
    run_cases(rep, binpath, rc, "rand")
    # 4. binding self-test: a corrupted observation must be rejected
    ev = vlib.read_ndjson(tpath)[:4000]
    bad = corrupt(ev)
    if bad is None:
        raise vlib.ToolError("self-test: no stat event in the first trace")
    bpath = os.path.join(rep.workdir, "trace-corrupt.ndjson")
    vlib.write_ndjson(bpath, bad)
    probe = vlib.Report(rep.pid, rep.tier, rep.seed, rep.workdir)
    probe.known = []
    vlib.validate_traces(probe, AREA, "HeaderMapTrace", "Trace.cfg", bpath, rep.workdir, None)
    if not probe.violations:
        raise vlib.ToolError("binding self-test failed: corrupted trace was accepted")
    rep.cov["binding_selftest"].append({"corrupted_field": "stat.len+1", "rejected": True, "sig": probe.violations[0][0]})
    rep.assumptions += ["names/values are drawn from a small alphabet (3 names in mixed case, 3 values); header value bytes are opaque",
                        "hash iteration order is whatever the real map produces; the monitor accepts any order across names"]


def replay(rep, path):
    obj = json.load(open(path))
    case = obj.get("case") or obj
    binpath = vlib.build_harness(rep.workdir)
    run_cases(rep, binpath, [case], "replay")
    rep.cov["samples"].append(case)
    rep.cov["distinct_nontrivial"] = 2
    rep.cov["states"] = max(rep.cov["states"], 1)
    rep.cov["transitions"] = max(rep.cov["transitions"], 1)
