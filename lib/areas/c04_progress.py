"""C04 (see DESIGN.md section 4 C04): driver on top of areas.h1_common."""
from areas import h1_common as H

PID = "C04"


def run(rep):
    H.run_h1(rep, PID, ["MC_C04_quick.cfg", "MC_C04_upg.cfg"], ["MC_C04_thorough.cfg", "MC_C04_upg.cfg"], [H.progress_family],
             dict(allow_bad=0.1, one_byte=0.2, budget=0.8, faults=True), n_random=(300, 5000), probe=True, max_scripts=(1500, 20000))


def replay(rep, path):
    H.replay_h1(rep, PID, path)
