"""C14 WebSocket handshake and frame codec (spec/ws)."""
import itertools
import json
import random

import vlib

AREA = "ws"
OPS = [0, 1, 2, 3, 7, 8, 9, 10, 11, 15]


def boundary_cases(rnd, quick):
    """Length-encoding boundaries with real sizes and max_size values; all cut positions around header/payload ends."""
    cases = []
    lens = [0, 1, 2, 125, 126, 127, 65535, 65536] + ([] if quick else [70000])
    for role in ("server", "client"):
        masked = role == "server"
        for ln in lens:
            for op in (1, 2, 9, 8):
                for mx in (65536, max(ln - 1, 0), ln, ln + 1):
                    if op == 8 and ln == 1:
                        continue
                    fr = [{"fin": True, "op": op, "masked": masked, "len": ln}, {"fin": True, "op": 2, "masked": masked, "len": 3}]
                    hdr = 2 + (0 if ln < 126 else 2 if ln <= 65535 else 8) + (4 if masked else 0)
                    total = hdr + ln
                    cuts = sorted({c for c in (1, 2, 3, 4, hdr - 1, hdr, hdr + 1, total - 1, total, total + 1) if 0 < c < total + 5})
                    variants = [[c] for c in cuts] + [[1] * min(total, 40)]
                    if quick:
                        variants = rnd.sample(variants, min(3, len(variants)))
                    for segs in variants:
                        cases.append({"role": role, "max": mx, "frames": fr, "segs": segs})
    # an announced multi-megabyte / 2^63 frame with a small max_size: must be refused after the header alone
    for role in ("server", "client"):
        masked = role == "server"
        for ln in (1 << 20, 1 << 30):
            cases.append({"role": role, "max": 1024, "frames": [{"fin": True, "op": 2, "masked": masked, "len": ln}], "segs": [2, 8, 4, 100], "announce_only": True})
    return cases


def random_cases(rnd, n):
    cases = []
    for _ in range(n):
        role = rnd.choice(["server", "client"])
        good_mask = role == "server"
        frames = []
        for _ in range(rnd.randint(1, 6)):
            op = rnd.choice([1, 2, 0, 0, 9, 10, 8, rnd.choice(OPS)])
            ln = rnd.choice([0, 2, 5, 100, 125, 126, 200, 1000, 5000])
            frames.append({"fin": rnd.random() < 0.6, "op": op, "masked": good_mask if rnd.random() < 0.93 else not good_mask, "len": ln})
        total_guess = sum(f["len"] + 14 for f in frames)
        segs = []
        left = total_guess
        while left > 0:
            s = rnd.choice([1, 2, 3, 7, 50, 500, left])
            segs.append(s)
            left -= s
        cases.append({"role": role, "max": rnd.choice([100, 150, 1000, 65536]), "frames": frames, "segs": segs})
    return cases


def handshake_cases():
    cases = []
    key = "dGhlIHNhbXBsZSBub25jZQ=="
    for get, up, conn, ver, haskey in itertools.product([True, False], ["websocket", "WebSocket", "h2c, websocket", "h2c", None],
                                                        ["upgrade", "Upgrade", "keep-alive", None], ["13", "8", "7", "12", "", None], [True, False]):
        hdrs = [["host", "t"]]
        if up is not None:
            hdrs.append(["upgrade", up])
        if conn is not None:
            hdrs.append(["connection", conn])
        if ver is not None:
            hdrs.append(["sec-websocket-version", ver])
        k = key if haskey else None
        if haskey:
            hdrs.append(["sec-websocket-key", key])
        facts = {"get": get, "upgrade_ws": up is not None and "websocket" in up.lower(), "conn_upgrade": conn is not None and conn.lower() == "upgrade",
                 "version_ok": ver in ("13", "8", "7"), "has_key": haskey}
        cases.append({"kind": "handshake", "method": "GET" if get else "POST", "hdrs": hdrs, "key": k or "", "facts": facts})
    for k in ("x", "", "A" * 24, "dGhlIHNhbXBsZSBub25jZQ==", "éé", "a b"):
        try:
            k.encode("latin-1")
        except Exception:
            continue
        if not k or any(ord(c) > 126 or ord(c) < 33 for c in k):
            continue
        cases.append({"kind": "handshake", "method": "GET", "hdrs": [["host", "t"], ["upgrade", "websocket"], ["connection", "upgrade"],
                      ["sec-websocket-version", "13"], ["sec-websocket-key", k]], "key": k,
                      "facts": {"get": True, "upgrade_ws": True, "conn_upgrade": True, "version_ok": True, "has_key": True}})
    return cases


def corrupt(ev):
    out = [dict(e) for e in ev]
    for e in out:
        if e.get("ev") == "Frame":
            e["len"] = e["len"] + 1
            return out
    return None


def run(rep):
    quick = rep.tier == "quick"
    rnd = random.Random(rep.seed * 104729 + 14)
    ar = vlib.Area(rep, AREA, "WsTrace")
    cfgs = ["MC_quick.cfg"] if quick else ["MC_quick.cfg", "MC_thorough.cfg"]
    cases = []
    for cfg in cfgs:
        res = vlib.run_tlc(AREA, "WsCodec", cfg, rep.workdir, workers=6 if quick else 12, timeout=900 if quick else 3000, xmx="10g")
        vlib.tlc_ok(res, "WsCodec " + cfg)
        rep.add_tlc("WsCodec/" + cfg, res, exhaustive=True)
        if res.distinct < 10000:
            raise vlib.ToolError("WsCodec explored suspiciously little")
        sc = res.cases
        rep.cov.setdefault("scripts_generated", 0)
        rep.cov["scripts_generated"] += len(sc)
        cap = 6000 if quick else 60000
        cases += rnd.sample(sc, cap) if len(sc) > cap else sc
    n_model = len(cases)
    extra = boundary_cases(rnd, quick) + random_cases(rnd, 300 if quick else 5000) + handshake_cases()
    rep.cov["distinct_nontrivial"] = len({json.dumps(c, sort_keys=True) for c in cases + extra})
    rep.cov["rule"] = ("(a) terminal behaviours of WsCodec (1-2 frames over opcodes incl. reserved x FIN x masked x length classes x role, every "
                       "segmentation at header/payload boundaries) enumerated by TLC, sampled by seed above the tier cap; (b) length-encoding "
                       "boundaries 125/126/65535/65536 with max_size at len-1/len/len+1 and announced huge frames; (c) random frame sequences and "
                       "cuts; (d) the handshake predicate over the product of its five conditions. distinct = distinct cases")
    for c in cases[:2] + extra[:1] + extra[-1:]:
        rep.sample(c)
    tpath = ar.run_cases(cases + extra, "all")
    ar.selftest(tpath, corrupt, "Frame.len + 1")
    rep.cov["model_scripts_replayed"] = n_model
    rep.assumptions += ["frames on the wire are produced by the harness's own frame writer; actix's encoder is judged by the harness's own frame reader",
                        "SHA-1/base64 of the accept key are re-implemented in the harness (checked on the RFC 6455 vector)",
                        "RSV bits are not generated (not named by the property)"]


def replay(rep, path):
    obj = json.load(open(path))
    case = obj.get("case") or obj
    ar = vlib.Area(rep, AREA, "WsTrace")
    ar.run_cases([case], "replay")
    rep.cov["samples"].append(case)
    rep.cov["distinct_nontrivial"] = 2
    rep.cov["states"] = max(rep.cov["states"], 1)
    rep.cov["transitions"] = max(rep.cov["transitions"], 1)
