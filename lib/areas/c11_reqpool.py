"""C11 request isolation despite pooling (spec/reqpool)."""
import json
import random

import vlib

AREA = "reqpool"


def directed(rnd):
    cases = []
    # more live requests than the pool capacity (128), then release and reuse
    cases.append({"hist": [{"k": "deep", "hold": True, "times": 140}, {"k": "release", "hold": False}] +
                          [{"k": k, "hold": False} for k in ("flat", "miss", "deep2", "tail", "q", "flat", "deep", "miss", "smiss", "flat", "smiss", "q", "miss")]})
    kinds = ["deep", "deep2", "flat", "miss", "tail", "q", "smiss"]
    for _ in range(30):
        h = []
        for _ in range(rnd.randint(8, 40)):
            if rnd.random() < 0.1:
                h.append({"k": "release", "hold": False})
            else:
                h.append({"k": rnd.choice(kinds), "hold": rnd.random() < 0.3})
        cases.append({"hist": h})
    return cases


def corrupt(ev):
    out = [dict(e) for e in ev]
    for e in out:
        if e.get("ev") == "req":
            e["same"] = False
            e["diff"] = "corrupted"
            return out
    return None


def run(rep):
    quick = rep.tier == "quick"
    rnd = random.Random(rep.seed * 499 + 11)
    ar = vlib.Area(rep, AREA, "PoolTrace")
    res = vlib.run_tlc(AREA, "ReqPool", "MC_quick.cfg" if quick else "MC_thorough.cfg", rep.workdir, workers=6 if quick else 12,
                       timeout=900 if quick else 3000, xmx="8g")
    vlib.tlc_ok(res, "ReqPool")
    rep.add_tlc("ReqPool", res, exhaustive=True)
    if res.distinct < 1000:
        raise vlib.ToolError("ReqPool explored suspiciously little")
    hs = res.cases
    rep.cov["scripts_generated"] = len(hs)
    cap = 1200 if quick else 20000
    hs = rnd.sample(hs, cap) if len(hs) > cap else hs
    cases = hs + directed(rnd)
    rep.cov["distinct_nontrivial"] = len({json.dumps(c, sort_keys=True) for c in cases})
    rep.cov["rule"] = ("ReqPool: every history of the bounded length over request kinds {deep scoped route with params/data/extension, same route "
                       "with other params, flat route, default} x {dropped at once, kept alive by a clone} and release-all, with a pool of "
                       "capacity 2-3, distinct model states; histories of maximal length are replayed through one real service instance and "
                       "each response dump (handler and middleware view) compared with a fresh instance; plus >128 live requests and random "
                       "long histories. distinct = histories")
    rep.sample(cases[0])
    rep.sample({"hist": cases[-1]["hist"][:8]})
    tpath = ar.run_cases(cases, "all")
    ar.selftest(tpath, corrupt, "same := false")
    rep.assumptions += ["the dump covers path, query, uri, match_info, unprocessed tail, match pattern/name, innermost app data, extensions, "
                        "connection data and headers, as seen by a handler and by a wrap_fn middleware before routing"]


def replay(rep, path):
    obj = json.load(open(path))
    case = obj.get("case") or obj
    ar = vlib.Area(rep, AREA, "PoolTrace")
    ar.run_cases([case], "replay")
    rep.cov["samples"].append({"hist": case["hist"][:20]})
    rep.cov["distinct_nontrivial"] = 2
    rep.cov["states"] = max(rep.cov["states"], 1)
    rep.cov["transitions"] = max(rep.cov["transitions"], 1)
