"""C12 body extractors never accept or buffer more than their limit (spec/bodylimit)."""
import json
import random

import vlib

AREA = "bodylimit"
EXS = ["bytes", "string", "json", "form", "tbl", "mpfield"]


def from_model(tc, scale, ex, coding="identity"):
    return {"ex": ex, "limit": tc["limit"] * scale, "chunks": [c * scale for c in tc["chunks"]],
            "declared": -1 if tc["declared"] < 0 or ex == "mpfield" else tc["declared"] * scale, "coding": coding, "wire_chunk": 64}


def directed(rnd, quick):
    cases = []
    # real limits with bodies at limit-1, limit, limit+1, much larger; many chunkings; coded bodies
    for limit in ((16, 4096) if quick else (16, 1024, 4096, 262144)):
        for total in (limit - 1, limit, limit + 1, limit * 8):
            comps = [[total], [1] * min(total, 64) + ([total - 64] if total > 64 else []), [total // 2, total - total // 2],
                     [limit // 2, limit // 2, total - 2 * (limit // 2)] if total >= limit else [total]]
            comps = [[c for c in comp if c > 0] for comp in comps]
            for comp in comps:
                if sum(comp) != total:
                    continue
                for declared in (-1, total, max(0, total - 5), limit * 20):
                    for ex in EXS + ["mptemp"]:
                        if ex in ("json", "form") and total < 3:
                            continue
                        if ex in ("mpfield", "mptemp") and declared != -1:
                            continue        # the declared length of a multipart request is that of the whole body
                        if ex == "mptemp" and limit not in (16, 4096):
                            continue        # the per-field limit of a multipart form is an attribute: two types exist in the harness
                        cases.append({"ex": ex, "limit": limit, "chunks": comp, "declared": declared, "coding": "identity"})
            for coding in ("gzip", "deflate", "br", "zstd"):
                for ex in ("bytes", "json", "string"):
                    for wc in (16, 1 << 20):
                        cases.append({"ex": ex, "limit": limit, "chunks": [total], "declared": -1, "coding": coding, "wire_chunk": wc})
    # decompression amplification: a small coded body that inflates far beyond the limit
    for coding in ("gzip", "deflate"):      # br / zstd keep multi-MiB decoder windows of their own: not used for the memory clause
        for wc in (1 << 20, 1024):
            cases.append({"ex": "bytes", "limit": 262144, "chunks": [16 << 20], "declared": -1, "coding": coding, "wire_chunk": wc, "zeros": True})
    if quick:
        cases = rnd.sample(cases, 500) + cases[-4:]
    return cases


def corrupt(ev):
    out = [dict(e) for e in ev]
    for e in out:
        if e.get("ev") == "extract" and e.get("status") == 200:
            e["total"] = e["limit"] + 1
            return out
    return None


def run(rep):
    quick = rep.tier == "quick"
    rnd = random.Random(rep.seed * 1009 + 12)
    ar = vlib.Area(rep, AREA, "LimitTrace")
    res = vlib.run_tlc(AREA, "BodyLimit", "MC_quick.cfg" if quick else "MC_thorough.cfg", rep.workdir, workers=4, timeout=900, xmx="6g")
    vlib.tlc_ok(res, "BodyLimit")
    rep.add_tlc("BodyLimit", res, exhaustive=True)
    if len(res.cases) < 100:
        raise vlib.ToolError("BodyLimit enumerated suspiciously few cases")
    cases = []
    for k, tc in enumerate(res.cases):
        for ex in (EXS if not quick else [EXS[k % len(EXS)], EXS[(k + 2) % len(EXS)]]):
            scale = 1 if ex in ("bytes", "string", "tbl") else 3
            cases.append(from_model(tc, scale, ex))
        if k % 7 == 0:
            cases.append(from_model(tc, 64, "bytes", coding=["gzip", "deflate", "br", "zstd"][k % 4]))
    extra = directed(rnd, quick)
    # every second case delivers one chunk per wake-up (Pending between chunks) instead of all chunks in one poll
    for k, c in enumerate(cases + extra):
        c["pend"] = (k % 2 == 1)
    rep.cov["scripts_generated"] = len(res.cases)
    rep.cov["distinct_nontrivial"] = len({json.dumps(c, sort_keys=True) for c in cases + extra})
    rep.cov["exhaustive"] = True
    rep.cov["rule"] = ("BodyLimit: limit 4 x totals {1,3,4,5,9} x every composition into at most 4 chunks x declared length {none, true, smaller, "
                       "larger than the limit}, enumerated by TLC and scaled to each of the five extractors; plus real limits (16 B .. 256 KiB) "
                       "with bodies at limit-1/limit/limit+1/8x, several chunkings, lying Content-Length, and gzip/deflate/br/zstd bodies "
                       "including a 16 MiB body of zeros behind a 256 KiB limit. distinct = cases")
    for c in cases[:2] + extra[-1:]:
        rep.sample(c)
    tpath = ar.run_cases(cases + extra, "all")
    ar.selftest(tpath, corrupt, "accepted body longer than the limit")
    rep.assumptions += ["held bytes are the heap high-water mark of the harness process during the request (counting allocator), with a slack of "
                        "64 KiB + 8 x limit for the extractor's own copies and the response",
                        "decoded bytes pulled are observable only for identity bodies (the decoding stream is inside the framework)"]


def replay(rep, path):
    obj = json.load(open(path))
    case = obj.get("case") or obj
    ar = vlib.Area(rep, AREA, "LimitTrace")
    ar.run_cases([case], "replay")
    rep.cov["samples"].append(case)
    rep.cov["distinct_nontrivial"] = 2
    rep.cov["states"] = max(rep.cov["states"], 1)
    rep.cov["transitions"] = max(rep.cov["transitions"], 1)
