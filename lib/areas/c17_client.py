"""C17 awc client: complete body or error; pool discipline (spec/client)."""
import json
import random

import vlib

AREA = "client"


def ex(x, framing="cl", n=10, cut=-1, persistent=True, extra=False, drop=False, seg=1 << 20, chunk=7):
    return {"status": 200 + x, "framing": framing, "n": n, "cut": cut, "persistent": persistent, "extra": extra, "drop": drop, "seg": seg, "chunk": chunk}


def from_model(tc, k):
    exs = [None] * len(tc["ends"])
    order = []
    for e in tc["ends"]:
        order.append(e)
    # exchanges are numbered in request order 1..n; `ends` lists how each ended
    how = {e["x"]: e["how"] for e in tc["ends"]}
    out = []
    for x in range(1, len(how) + 1):
        h = how[x]
        framing = ["cl", "chunked"][(x + k) % 2]
        n = [10, 25, 64][(x + k) % 3]
        if h == "complete":
            out.append(ex(x, framing, n))
        elif h == "cut":
            out.append(ex(x, framing, n, cut=(k + x) % n))
        elif h == "extra":
            out.append(ex(x, framing, n, extra=True))
        elif h == "close-header":
            out.append(ex(x, framing, n, persistent=False))
        elif h == "hcut":
            e1 = ex(x, framing, n)
            e1["hcut"] = (k * 7 + x) % 36
            out.append(e1)
        else:
            out.append(ex(x, framing, n, drop=True))
    return {"ex": out, "limit": tc["limit"], "concurrent": 1, "origin": "ClientConn"}


def directed(rnd, quick):
    cases = []
    # connection closed at every byte offset of the body, for each framing and segmentation
    for framing in ("cl", "chunked"):
        n = 23
        for cut in (range(0, n) if not quick else (0, 1, 7, 8, 22)):
            for seg in (1 << 20, 1, 5):
                cases.append({"ex": [ex(1, framing, n, cut=cut, seg=seg), ex(2, "cl", 5)], "limit": 2, "concurrent": 1})
    # connection closed at every byte offset of the head (status line, header names and values, the final CR), then another request
    for framing in ("cl", "chunked"):
        for hcut in (range(0, 60) if not quick else (0, 1, 9, 15, 16, 17, 30, 36, 37, 59)):
            for seg in ((1 << 20, 1, 5) if not quick else (1 << 20, 1)):
                e1 = ex(1, framing, 12, seg=seg)
                e1["hcut"] = hcut
                cases.append({"ex": [e1, ex(2, "cl", 5), ex(3, framing, 9)], "limit": 2, "concurrent": 1})
    # (bodies delimited by connection close are not in the property's quantifier: awc reads HTTP/1.1 responses without a length as empty)
    # chunk-size lines with every hex digit, upper and lower case boundaries (10..15, 26, 171, 255, 256, 4096)
    for cs in (10, 11, 12, 13, 14, 15, 26, 171, 255, 256, 4096):
        cases.append({"ex": [ex(1, "chunked", cs * 2 + 3, chunk=cs, seg=rnd.choice([1, 9, 1 << 20])), ex(2, "cl", 5)], "limit": 2, "concurrent": 1})
    # chunk extensions after every size line (and after the last-chunk's zero), under three segmentations, followed by reuse
    for cs in (1, 7, 16, 300):
        for seg in (1 << 20, 1, 5):
            e1 = ex(1, "chunked", cs * 2 + 3, chunk=cs, seg=seg)
            e1["ext"] = True
            cases.append({"ex": [e1, ex(2, "cl", 5), ex(3, "chunked", 8)], "limit": 1, "concurrent": 1})
    # chunked coding together with a Content-Length (equal to, smaller and larger than the coded body): the coding decides
    for also in (9, 2, 23, 60):
        for seg in (1 << 20, 1, 6):
            e1 = ex(1, "chunked", 9, seg=seg, chunk=5)
            e1["also_cl"] = also
            cases.append({"ex": [e1, ex(2, "cl", 5), ex(3, "chunked", 8)], "limit": 1, "concurrent": 1})
    # gzip-coded bodies inside a complete Content-Length framing: whole, without the trailer, cut in the middle (incompressible
    # patterns would be needed for sizes; the pattern bytes compress, so n is large)
    for gz in ("ok", "trunc", "half"):
        for n in (400, 38400):
            for seg in (1 << 20, 7):
                e1 = ex(1, "cl", n, seg=seg)
                e1["gz"] = gz
                cases.append({"ex": [e1, ex(2, "cl", 5)], "limit": 1, "concurrent": 1})
    # leftovers after a complete response on a persistent connection, then another request
    for framing in ("cl", "chunked"):
        cases.append({"ex": [ex(1, framing, 12, extra=True), ex(2, "cl", 5), ex(3, "cl", 5)], "limit": 2, "concurrent": 1})
    # early-dropped bodies, close headers
    cases.append({"ex": [ex(1, "cl", 5000, drop=True, seg=100), ex(2, "cl", 5), ex(3, "chunked", 9, persistent=False), ex(4, "cl", 5)], "limit": 2, "concurrent": 1})
    # concurrency above the pool limit
    for limit, conc in ((1, 3), (2, 5), (3, 8)):
        cases.append({"ex": [ex(x, ["cl", "chunked"][x % 2], 40, seg=3) for x in range(1, conc * 2 + 1)], "limit": limit, "concurrent": conc})
    return cases


def corrupt(ev):
    out = [dict(e) for e in ev]
    for e in out:
        if e.get("ev") == "Body" and e.get("outcome") == "ok":
            e["n"] = e["n"] + 1
            return out
    return None


def run(rep):
    quick = rep.tier == "quick"
    rnd = random.Random(rep.seed * 409 + 17)
    ar = vlib.Area(rep, AREA, "ClientTrace")
    res = vlib.run_tlc(AREA, "ClientConn", "MC_quick.cfg" if quick else "MC_thorough.cfg", rep.workdir, workers=4 if quick else 10,
                       timeout=900 if quick else 3000, xmx="6g")
    vlib.tlc_ok(res, "ClientConn")
    rep.add_tlc("ClientConn", res, exhaustive=True)
    if res.distinct < 1000:
        raise vlib.ToolError("ClientConn explored suspiciously little")
    sc = res.cases
    rep.cov["scripts_generated"] = len(sc)
    cap = 600 if quick else 8000
    sc = rnd.sample(sc, cap) if len(sc) > cap else sc
    cases = [from_model(tc, k) for k, tc in enumerate(sc)] + directed(rnd, quick)
    rep.cov["distinct_nontrivial"] = len({json.dumps(c, sort_keys=True) for c in cases})
    rep.cov["rule"] = ("ClientConn: every sequence of 4-5 exchanges to one authority, each ending complete / cut by the server in the body or in the head / followed by extra bytes / "
                       "with connection: close / dropped early by the application, against a pool limit, explored by TLC; completed behaviours are "
                       "concretised (framing and sizes rotate) and run through awc::Client over a scripted in-memory connector; plus a close at "
                       "every byte offset of the head and of Content-Length and chunked bodies under three segmentations, leftovers, and concurrency above the "
                       "limit; chunked responses that also carry a Content-Length or chunk extensions. distinct = cases")
    for c in cases[:1] + cases[-1:]:
        rep.sample(c)
    tpath = ar.run_cases(cases, "all")
    ar.selftest(tpath, corrupt, "Body.n + 1")
    rep.assumptions += ["the server side is a script inside the connector's in-memory socket; exchanges are identified by status code 200+x",
                        "only GET requests without bodies are sent"]


def replay(rep, path):
    obj = json.load(open(path))
    case = obj.get("case") or obj
    ar = vlib.Area(rep, AREA, "ClientTrace")
    ar.run_cases([case], "replay")
    rep.cov["samples"].append(case)
    rep.cov["distinct_nontrivial"] = 2
    rep.cov["states"] = max(rep.cov["states"], 1)
    rep.cov["transitions"] = max(rep.cov["transitions"], 1)
