"""C16 static files: stay inside the root, answer ranges exactly (spec/files)."""
import itertools
import json
import random

import vlib

AREA = "files"
HOSTILE = ["..", "%2e%2e", "%2E.", ".%2e", "..%2f", "..%2F", "%2e%2e%2f", "..%5c", "..%5c..", "%5c..", "%00", "..%00", "%c0%ae%c0%ae", "%252e%252e",
           "..;", "....", ". .", "%2e", ".", "", "in", "%2e%2e%2f%2e%2e", "..%c0%af", "*", "a:", "%ff"]


def range_hdr(r, L):
    k = r["k"]
    if k == "none":
        return ""
    if k == "garbage":
        return "bytes=zz-"
    if k == "fl":
        return "bytes=%d-%d" % (r["a"], r["b"])
    if k == "open":
        return "bytes=%d-" % r["a"]
    return "bytes=-%d" % r["n"]


def from_model(tc, k):
    if tc["kind"] == "path":
        return [{"kind": "path", "toks": tc["toks"], "mount": "/"}, {"kind": "path", "toks": tc["toks"], "mount": "s"}][k % 2:][:1] + \
               ([{"kind": "path", "toks": tc["toks"], "mount": "/", "append_file": False}] if k % 5 == 0 else [])
    name = {0: "f0", 1: "f1", 3: "f3"}[tc["L"]]
    return [{"kind": "range", "file": name, "hdr": range_hdr(tc["r"], tc["L"])}]


def directed(rnd, quick):
    cases = []
    # hostile spellings, 1-3 segments, followed by the canary's name, on both mounts
    segs = HOSTILE if not quick else rnd.sample(HOSTILE, 10)
    for n in (1, 2, 3):
        combos = list(itertools.product(segs, repeat=n))
        if len(combos) > (400 if quick else 6000):
            combos = rnd.sample(combos, 400 if quick else 6000)
        for c in combos:
            for mount in ("", "/s"):
                cases.append({"kind": "path", "raw": mount + "/" + "/".join(c) + "/canary.txt"})
    # range shapes against real lengths incl. multi-chunk files
    hdrs = ["bytes=0-0", "bytes=0-", "bytes=-1", "bytes=-5", "bytes=-0", "bytes=1-1", "bytes=2-1", "bytes=0-99999999999999999999", "bytes=99999-",
            "bytes=18446744073709551615-", "bytes=-18446744073709551615", "bytes=0-0,2-2", "bytes=5-,0-1", "bytes=65535-65537", "bytes=0-69999",
            "bytes=65536-", "bytes=-70001", "bytes=69999-69999", "bytes=70000-", "bytes=abc", "bytes=", "items=0-1", "bytes=1-2-3", "bytes=--1",
            "bytes=0-199999", "bytes=1-131072", "bytes=131071-131073"]
    for f in ("f0", "f1", "f3", "big", "big2"):
        for h in hdrs:
            cases.append({"kind": "range", "file": f, "hdr": h})
        for cond in ([["if-none-match", "*"]], [["if-match", "\"nope\""]], [["if-modified-since", "Thu, 01 Jan 2099 00:00:00 GMT"]],
                     [["if-unmodified-since", "Thu, 01 Jan 1970 00:00:00 GMT"]], [["if-range", "\"nope\""]]):
            cases.append({"kind": "range", "file": f, "hdr": rnd.choice(hdrs[:6]), "cond": cond})
            cases.append({"kind": "range", "file": f, "hdr": "", "cond": cond})
    for f in ("f0", "f1", "f3", "big"):
        for v in ("inm-same", "inm-weak", "inm-list", "inm-other", "im-same", "im-weak", "im-other"):
            cases.append({"kind": "cond", "file": f, "variant": v})
    return cases


def corrupt(ev):
    out = [dict(e) for e in ev]
    for e in out:
        if e.get("ev") == "range" and e.get("status") == 206:
            e["b"] = e["b"] + 1
            return out
    return None


def run(rep):
    quick = rep.tier == "quick"
    rnd = random.Random(rep.seed * 2203 + 16)
    ar = vlib.Area(rep, AREA, "FilesTrace")
    res = vlib.run_tlc(AREA, "FilesMC", "MC_quick.cfg" if quick else "MC_thorough.cfg", rep.workdir, workers=4, timeout=900, xmx="6g")
    vlib.tlc_ok(res, "FilesMC")
    rep.add_tlc("FilesMC", res, exhaustive=True)
    if res.distinct < 1000:
        raise vlib.ToolError("FilesMC enumerated suspiciously few cases")
    cases = []
    for k, tc in enumerate(res.cases):
        cases += from_model(tc, k)
    extra = directed(rnd, quick)
    rep.cov["scripts_generated"] = len(res.cases)
    rep.cov["distinct_nontrivial"] = len({json.dumps(c, sort_keys=True) for c in cases + extra})
    rep.cov["exhaustive"] = True
    rep.cov["rule"] = ("FilesMC: every sequence of up to 3 segment tokens over {name, canary name, hidden, '.', '..', empty, %2e%2e, ..%2f, backslash, "
                       "bad UTF-8, '*', double-encoded} and every range form over file lengths 0/1/3, enumerated by TLC; plus hostile spellings "
                       "crossed to 3 segments on both mounts, range/conditional headers against 0/1/3/70000/200000-byte files, and If-None-Match / "
                       "If-Match with the validator the service itself sent (same, weak form, in a list, other). distinct = cases")
    for c in cases[:2] + extra[:1]:
        rep.sample(c)
    tpath = ar.run_cases(cases + extra, "all")
    ar.selftest(tpath, corrupt, "206 Content-Range end + 1")
    rep.assumptions += ["'served' is decided by file content: canary files with distinct contents inside and outside the root",
                        "unix path semantics (backslash is an ordinary character)"]


def replay(rep, path):
    obj = json.load(open(path))
    case = obj.get("case") or obj
    ar = vlib.Area(rep, AREA, "FilesTrace")
    ar.run_cases([case], "replay")
    rep.cov["samples"].append(case)
    rep.cov["distinct_nontrivial"] = 2
    rep.cov["states"] = max(rep.cov["states"], 1)
    rep.cov["transitions"] = max(rep.cov["transitions"], 1)
