"""C03 (see DESIGN.md section 4 C03): driver on top of areas.h1_common."""
from areas import h1_common as H

PID = "C03"


def run(rep):
    H.run_h1(rep, PID, ["MC_C03_quick.cfg"], ["MC_C03_thorough.cfg", "MC_C03_thorough_b.cfg"], [H.reuse_family],
             dict(allow_bad=0.2, one_byte=0.15, budget=0.2, faults=True), n_random=(300, 5000), max_scripts=(1500, 20000))


def replay(rep, path):
    H.replay_h1(rep, PID, path)
