"""C01 (see DESIGN.md section 4 C01): driver on top of areas.h1_common."""
from areas import h1_common as H

PID = "C01"


def run(rep):
    H.run_h1(rep, PID, ["MC_C01_head2.cfg", "MC_C01_chunk1.cfg"], ["MC_C01_head1.cfg", "MC_C01_head2.cfg", "MC_C01_chunk1.cfg", "MC_C01_chunk2.cfg"],
             [H.framing_family, H.hugehead_family], dict(allow_bad=0.6, one_byte=0.3, budget=0.1, faults=False), n_random=(150, 3000),
             max_scripts=(400, 4000))


def replay(rep, path):
    H.replay_h1(rep, PID, path)
