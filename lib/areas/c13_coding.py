"""C13 content coding: lossless, labelled, negotiated (spec/coding)."""
import json
import random

import vlib

AREA = "coding"


def ae_string(items):
    return ", ".join(it["c"] + ("" if it["q"] == 10 else ";q=%s" % ("0" if it["q"] == 0 else "0.%d" % it["q"])) for it in items)


def resp(n=3000, kind="bytes", cuts=None, status=200, ctype="text/plain", content="text", **kw):
    r = {"n": n, "kind": kind, "cuts": cuts if cuts is not None else [n], "status": status, "ctype": ctype, "content": content, "pend": False}
    r.update(kw)
    return r


def neg_cases(model_cases, rnd, quick):
    cases = []
    for tc in model_cases:
        items = tc["items"]
        for ctype in ("text/plain", "image/png"):
            if ctype == "image/png" and rnd.random() < (0.8 if quick else 0.5):
                continue
            c = {"kind0": "neg", "items": items, "resp": resp(ctype=ctype)}
            if items:
                c["accept"] = ae_string(items)
            cases.append(c)
    return cases


def body_cases(rnd, quick):
    cases = []
    sizes = [0, 1, 10, 1023, 1024, 1025, 2048, 2049, 2050, 5000, 70000, 300000]
    if quick:
        sizes = [0, 1, 1023, 1024, 1025, 2049, 70000]
    for coding in ("gzip", "br", "zstd", "deflate", "identity"):
        for n in sizes:
            for content in (("text", "random") if not quick else ("text",)):
                chunkings = [[n]] if n else [[]]
                if n > 3:
                    chunkings += [[1] * min(n, 50) + ([n - 50] if n > 50 else []), [n // 3, n - n // 3], [1023, 1, n - 1024] if n > 1030 else [n - 1, 1],
                                  [0, n // 2, 0, n - n // 2, 0]]
                for cuts in chunkings:
                    cuts = [c for c in cuts]
                    if sum(cuts) != n:
                        continue
                    for kind in ("stream", "sized", "bytes"):
                        if kind == "bytes" and len(cuts) != 1:
                            continue
                        if n == 0 and kind != "bytes":
                            kind_ = "empty"
                        else:
                            kind_ = kind
                        for pend in (False, True):
                            if pend and kind_ in ("bytes", "empty"):
                                continue
                            cases.append({"kind0": "body", "accept": coding, "resp": resp(n, kind_, cuts, content=content, pend=pend)})
    # large incompressible chunks: the coder's output buffer is smaller than one chunk (kept in every tier)
    for coding in ("gzip", "br", "zstd", "deflate"):
        for n, cuts in ((70000, [70000]), (200000, [100000, 100000]), (40000, [40000])):
            for kind in ("bytes", "stream"):
                if kind == "bytes" and len(cuts) != 1:
                    continue
                cases.append({"kind0": "body", "accept": coding, "resp": resp(n, kind, cuts, content="random", keep=True)})
    # pass-through set and length headers
    for status in (204, 206, 101):
        cases.append({"kind0": "body", "accept": "gzip", "resp": resp(2000, "bytes", status=status)})
        cases.append({"kind0": "body", "accept": "br", "resp": resp(2000, "stream", [1000, 1000], status=status)})
    for pre in ("gzip", "br", "x-custom"):
        cases.append({"kind0": "body", "accept": "gzip, br", "resp": resp(2000, "bytes", pre_encoded=pre)})
    for kind, cuts in (("stream", [2500, 2500]), ("sized", [5000]), ("bytes", [5000])):
        for coding in ("gzip", "br", "identity"):
            cases.append({"kind0": "body", "accept": coding, "resp": resp(5000, kind, cuts, user_cl=True)})
    # the same responses over a real HTTP/1.1 connection: what the head announces must delimit the encoded body
    for coding in ("gzip", "br", "deflate", "zstd", "identity", None):
        for n in (0, 100, 5000, 70000):
            for kind, cuts in (("bytes", [n]), ("stream", [n // 2, n - n // 2]), ("sized", [n])):
                if n == 0:
                    kind, cuts = "empty", []
                for flag in ({}, {"user_cl": True}, {"no_chunking": True}):
                    if flag and kind in ("bytes", "empty"):
                        continue
                    c = {"kind0": "wire", "resp": resp(n, kind, cuts, **flag)}
                    if coding:
                        c["accept"] = coding
                    cases.append(c)
    for status in (204, 206):
        cases.append({"kind0": "wire", "accept": "gzip", "resp": resp(2000, "bytes", status=status)})
    for coding in ("gzip", "deflate", "br", "zstd", "identity"):
        for n in (0, 1, 100, 2048, 2049, 2050, 100000):
            cases.append({"kind0": "reqbody", "coding": coding, "n": n, "content": rnd.choice(["text", "random", "zeros"])})
    if quick:
        keep = [c for c in cases if c["kind0"] != "body" or "user_cl" in c["resp"] or "pre_encoded" in c["resp"] or c["resp"]["status"] != 200 or c["resp"].get("keep")]
        rest = [c for c in cases if c not in keep]
        cases = keep + rnd.sample(rest, min(len(rest), 400))
    return cases


def corrupt(ev):
    out = [dict(e) for e in ev]
    for e in out:
        if e.get("ev") == "neg" and e.get("items") and e.get("status") == 200:
            e["chosen"] = "zstd" if e["chosen"] != "zstd" else "gzip"
            e["items"] = [{"c": "identity", "q": 10}]
            return out
    return None


def run(rep):
    quick = rep.tier == "quick"
    rnd = random.Random(rep.seed * 733 + 13)
    ar = vlib.Area(rep, AREA, "CodingTrace")
    res = vlib.run_tlc(AREA, "CodingMC", "MC_quick.cfg" if quick else "MC_thorough.cfg", rep.workdir, workers=4, timeout=900, xmx="6g")
    vlib.tlc_ok(res, "CodingMC")
    rep.add_tlc("CodingMC", res, exhaustive=True)
    if len(res.cases) < 100:
        raise vlib.ToolError("CodingMC enumerated suspiciously few headers")
    cases = neg_cases(res.cases, rnd, quick) + body_cases(rnd, quick)
    rep.cov["scripts_generated"] = len(res.cases)
    rep.cov["distinct_nontrivial"] = len({json.dumps(c, sort_keys=True) for c in cases})
    rep.cov["exhaustive"] = True
    rep.cov["rule"] = ("CodingMC: every Accept-Encoding header of up to MaxItems items over {gzip, br, deflate, identity, *, unknown} x q in {0, .5, 1} "
                       "(negotiation checked against RFC 7231 5.3.4 Permitted, also for an incompressible content type), and the streaming encoder "
                       "state machine over chunk classes; bodies of 0..300000 bytes around the 1 KiB / 2 KiB thresholds x chunkings (with empty "
                       "chunks, Pending between chunks) x body kinds x codings decoded with the codec libraries directly; the pass-through set; "
                       "handler-set Content-Length; the same responses (plus declared lengths via no_chunking) read from a real HTTP/1.1 keep-alive "
                       "connection on loopback by a byte-level client; request bodies in every coding. distinct = cases")
    for c in cases[:1] + cases[-2:]:
        rep.sample(c)
    tpath = ar.run_cases(cases, "all")
    ar.selftest(tpath, corrupt, "chosen coding replaced by one the header forbids")
    rep.assumptions += ["gzip/deflate/brotli/zstd libraries are environment: fidelity is observed by decoding with them, not modelled",
                        "observed at the actix_web::test level (response head + body stream), not on the wire"]


def replay(rep, path):
    obj = json.load(open(path))
    case = obj.get("case") or obj
    ar = vlib.Area(rep, AREA, "CodingTrace")
    ar.run_cases([case], "replay")
    rep.cov["samples"].append(case)
    rep.cov["distinct_nontrivial"] = 2
    rep.cov["states"] = max(rep.cov["states"], 1)
    rep.cov["transitions"] = max(rep.cov["transitions"], 1)
