"""C19 no peer-controlled input makes the library panic (spec/totality)."""
import json
import random

import vlib

AREA = "totality"
LEVEL = "exploration"
ENTRIES = ["h1-request", "ws-frame", "multipart", "query", "path", "content-disposition", "range", "entity-tag", "accept", "forwarded",
           "awc-response", "cookie", "content-type", "http-date", "quality"]


def random_plans(rnd, n):
    plans = []
    for _ in range(n):
        ln = rnd.choice([0, 1, 2, 3, 5, 9, 17, 40, 200])
        kind = rnd.random()
        if kind < 0.5:
            raw = bytes(rnd.randrange(256) for _ in range(ln))
        elif kind < 0.8:
            raw = bytes(rnd.choice(b"\r\n :;,=\"\\/%-+*W0123456789abcxyz{}[]()<>\x00\xff") for _ in range(ln))
        else:
            raw = bytes(rnd.choice(b"W/\"*,;= \t") for _ in range(ln))
        plans.append({"entry": rnd.choice(ENTRIES), "template": 1, "op": "raw", "pos": "start", "val": "0", "raw_hex": raw.hex()})
    return plans


def short_inputs():
    """every byte string of length <= 2 over a hostile alphabet, and known shapes, for every header-like entry point"""
    plans = []
    alpha = [b"", b"W", b"/", b"\"", b"*", b",", b";", b"=", b"-", b"0", b" ", b"q", b"%", b"\\"]
    seqs = set()
    for a in alpha:
        for b in alpha:
            for c in alpha[:8]:
                seqs.add(a + b + c)
    for s in sorted(seqs):
        for e in ("entity-tag", "range", "content-disposition", "accept", "forwarded", "quality", "content-type", "http-date", "cookie"):
            plans.append({"entry": e, "template": 1, "op": "raw", "pos": "start", "val": "0", "raw_hex": s.hex()})
    # websocket: every opcode x tiny payload lengths incl. a 1-byte close payload, both roles handled by the harness
    for op in range(16):
        for ln in (0, 1, 2, 3, 125):
            for masked in (0x80, 0):
                fr = bytes([0x80 | op, masked | ln]) + (b"\x01\x02\x03\x04" if masked else b"") + bytes([3]) * ln
                plans.append({"entry": "ws-frame", "template": 1, "op": "raw", "pos": "start", "val": "0", "raw_hex": fr.hex()})
    return plans


def corrupt(ev):
    out = [dict(e) for e in ev]
    for e in out:
        if e.get("ev") == "tot":
            e["outcome"] = "panic"
            return out
    return None


def run(rep):
    quick = rep.tier == "quick"
    rnd = random.Random(rep.seed * 271 + 19)
    ar = vlib.Area(rep, AREA, "TotTrace")
    res = vlib.run_tlc(AREA, "Totality", "MC_quick.cfg", rep.workdir, workers=4, timeout=900, xmx="6g")
    vlib.tlc_ok(res, "Totality")
    rep.add_tlc("Totality", res, exhaustive=True)
    plans = res.cases
    if len(plans) < 1000:
        raise vlib.ToolError("Totality enumerated suspiciously few plans")
    extra = short_inputs() + random_plans(rnd, 3000 if quick else 60000)
    rep.cov["evaluations"] = 0
    rep.cov["distinct_nontrivial"] = len({json.dumps(p, sort_keys=True) for p in plans + extra})
    rep.cov["rule"] = ("Totality.tla enumerates every plan [entry point (15) x template (3) x mutation (none/flip/high-bit/nul/truncate/delete/dup-field/"
                       "oversize/set-length/splice) x abstract position (7) x extreme length value (11, for set-length)]; each plan is concretised on "
                       "a valid message and run whole and fragmented under catch_unwind with a step budget; plus every string of <= 3 symbols over a "
                       "hostile alphabet for the header parsers, every opcode x tiny length for ws frames, and seeded random bytes. distinct = plans. "
                       "A case is non-trivial if it reaches the parser (all do). Panics observed by the other areas' harnesses are reported by "
                       "their own checks as C19/Panic.")
    for p in plans[:2] + extra[:1]:
        rep.sample(p)
    tpath = ar.run_cases(plans + extra, "all")
    ar.selftest(tpath, corrupt, "outcome := panic")
    rep.assumptions += ["random byte strings beyond the plans are sampled, not enumerated: weaker than a fuzzer (level: exploration)",
                        "harness built with overflow-checks and debug-assertions on (release profile of harness/Cargo.toml)"]


def replay(rep, path):
    obj = json.load(open(path))
    case = obj.get("case") or obj
    ar = vlib.Area(rep, AREA, "TotTrace")
    ar.run_cases([case], "replay")
    rep.cov["samples"].append(case)
    rep.cov["distinct_nontrivial"] = 2
    rep.cov["evaluations"] = max(rep.cov["evaluations"], 1)
