"""C10 path patterns match exactly their language (spec/router)."""
import json
import random

import vlib

AREA = "router"


def long_path_cases(rnd, n):
    """random long paths up to the 64 KiB URL limit for the 16-bit capture offsets (expectations known by construction)"""
    cases = []
    for _ in range(n):
        a = rnd.choice([1, 10, 255, 256, 4000, 30000, 32767, 32768, 60000])
        b = rnd.choice([1, 5, 300, 5000])
        if a + b + 3 > 65000:
            b = 1
        seg1 = "".join(rnd.choice("ab1") for _ in range(a))
        seg2 = "".join(rnd.choice("ab1") for _ in range(b))
        path = "/" + seg1 + "/" + seg2
        cases.append({"kind": "longmatch", "pattern": "/{x}/{y}", "prefix": rnd.random() < 0.5, "path_str": path, "want_len": len(path),
                      "want_caps": [seg1, seg2]})
        path2 = "/" + seg2 + "/" + seg1 + "/" + seg2
        cases.append({"kind": "longmatch", "pattern": "/{x}/{t}*", "prefix": False, "path_str": path2, "want_len": len(path2),
                      "want_caps": [seg2, seg1 + "/" + seg2]})
    return cases


def corrupt(ev):
    out = [dict(e) for e in ev]
    for e in out:
        if e.get("ev") == "match" and e.get("find", -1) > 0:
            e["find"] = e["find"] - 1
            return out
    return None


def run(rep):
    quick = rep.tier == "quick"
    rnd = random.Random(rep.seed * 31337 + 10)
    ar = vlib.Area(rep, AREA, "PatTrace")
    res = vlib.run_tlc(AREA, "PatMC", "MC_quick.cfg" if quick else "MC_thorough.cfg", rep.workdir, workers=6 if quick else 12,
                       timeout=900 if quick else 3000, xmx="8g")
    vlib.tlc_ok(res, "PatMC")
    rep.add_tlc("PatMC", res, exhaustive=True)
    cases = res.cases
    if len(cases) < 5000:
        raise vlib.ToolError("PatMC enumerated suspiciously few cases")
    rep.cov["scripts_generated"] = len(cases)
    extra = long_path_cases(rnd, 10 if quick else 100)
    rep.cov["distinct_nontrivial"] = len(cases) + len(extra)
    rep.cov["exhaustive"] = True
    rep.cov["rule"] = ("TLC enumerates 22 patterns (static, dynamic, custom-regex, tail, adjacent custom-regex segments) x prefix/full x every path "
                       "over {a,1,/} up to the length bound, 9 two-pattern sets, and every string over {x,%,hex,non-hex} up to the bound x 3 "
                       "protected sets for the percent-decoder; all are evaluated on the real ResourceDef/Path/Quoter and each observation is "
                       "validated by TLC against the relational reference PatRef; plus random long paths up to 64 KiB. distinct = cases")
    for c in cases[:1] + cases[len(cases) // 2:len(cases) // 2 + 2]:
        rep.sample(c)
    tpath = ar.run_cases(cases + extra, "all")
    ar.selftest(tpath, corrupt, "find_match - 1")
    rep.assumptions += ["the regex engines are environment: only the language of the generated patterns is specified, through PatRef",
                        "paths longer than the URL limit are outside the property's quantifier"]


def replay(rep, path):
    obj = json.load(open(path))
    case = obj.get("case") or obj
    ar = vlib.Area(rep, AREA, "PatTrace")
    ar.run_cases([case], "replay")
    rep.cov["samples"].append(case if len(json.dumps(case)) < 2000 else {"kind": case["kind"]})
    rep.cov["distinct_nontrivial"] = 2
    rep.cov["states"] = max(rep.cov["states"], 1)
    rep.cov["transitions"] = max(rep.cov["transitions"], 1)
