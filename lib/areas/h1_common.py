"""HTTP/1 connection properties C01-C06: shared driver (DESIGN.md 4 C01-C06, spec/h1)."""
import json
import os
import random

import h1gen
import vlib

AREA = "h1"

BAD_HEAD = h1gen.BAD_HEAD
BAD_CHUNK = h1gen.BAD_CHUNK


# ---------------------------------------------------------------------------------------------
# concretisation of H1Conn scripts (units -> bytes)
# ---------------------------------------------------------------------------------------------
def concretize(tc, idx, probe=False):
    """tc: the CASE record printed by H1Conn (reqs, progs, steps in units, budget0, bad, half_closed, ka)."""
    n = len(tc["reqs"])
    bad = tc.get("bad", {"at": 0, "kind": ""})
    reqs, progs = [], []
    unit_bytes = []  # byte length of every wire unit, in order
    for j, (r, p) in enumerate(zip(tc["reqs"], tc["progs"])):
        i = j + 1
        kw = {"m": r["m"], "ver": r["ver"], "conn": r["conn"]}
        body = r["body"]
        if r["m"] == "GET" and body != "none":
            kw["m"] = "POST"
        if bad["at"] == i and bad["kind"] == "head":
            kw["framing"] = {"k": BAD_HEAD[idx % len(BAD_HEAD)]}
            kw["ver"] = 11
            if kw["m"] in ("GET", "HEAD"):
                kw["m"] = "POST"
        elif bad["at"] == i and bad["kind"] == "chunk":
            kw["framing"] = {"k": "badchunk:" + BAD_CHUNK[idx % len(BAD_CHUNK)], "good": [6]}
            kw["m"] = "POST"
            kw["ver"] = 11
        elif body == "cl":
            kw["framing"] = {"k": "cl", "n": 12}
        elif body == "ch":
            kw["framing"] = {"k": "chunked", "chunks": [6, 6]}
        reqs.append(kw)
        rb = p["rbody"]
        body_prog = {"empty": {"k": "empty"}, "bytes": {"k": "bytes", "chunks": [20]},
                     "stream": {"k": "body-stream", "chunks": [10, 10]}}[rb]
        progs.append({"pend": p["pend"], "read": p["read"], "keep": p["keep"],
                      "resp": {"status": p["status"], "conn": p["rconn"], "body": body_prog}})
    cfg = {"ka_ms": 5000 if tc.get("ka", True) else 0, "head_ms": 0, "disc_ms": 0, "half_closed": tc.get("half_closed", True)}
    b0 = tc.get("budget0", 99)
    sock = {"budget": -1 if b0 >= 99 else b0 * 37}
    case = h1gen.assemble(reqs, progs, cfg=cfg, sock=sock, epilogue=False, probe=probe)
    # byte length of each unit, in wire order
    for j, g in enumerate(case["gt"]):
        r = tc["reqs"][j]
        i = j + 1
        if bad["at"] == i and bad["kind"] == "head":
            unit_bytes.append(g["wirelen"])
        elif bad["at"] == i and bad["kind"] == "chunk":
            good = 3 + 6 + 2
            unit_bytes += [g["headlen"], good, g["wirelen"] - g["headlen"] - good]
        elif r["body"] == "none" or (r["m"] == "HEAD"):
            unit_bytes.append(g["wirelen"])
        elif r["body"] == "cl":
            unit_bytes += [g["headlen"], 6, 6]
        else:
            unit_bytes += [g["headlen"], 3 + 6 + 2, 3 + 6 + 2, 5]
    assert sum(unit_bytes) == case["total"], (unit_bytes, case["total"])
    steps, pos = [], 0
    for s in tc["steps"]:
        if "seg" in s:
            k = s["seg"]
            steps.append({"seg": sum(unit_bytes[pos:pos + k])})
            pos += k
        elif "w" in s:
            steps.append({"w": -1 if s["w"] < 0 else 37})
        else:
            steps.append(s)
    case["steps"] = steps
    h1gen.add_epilogue(case)
    case["origin"] = "H1Conn"
    return case


# ---------------------------------------------------------------------------------------------
# directed families (quantifiers that the unit-level model abstracts: byte offsets, classes, sizes)
# ---------------------------------------------------------------------------------------------
def ok_prog(status=200, n=5, read="all", kind="bytes", **kw):
    p = {"pend": 0, "read": read, "keep": "handler", "resp": {"status": status, "conn": "-", "body": {"k": kind, "chunks": [n] if n else []}}}
    p.update(kw)
    return p


def seg_variants(rnd, total, boundaries, quick):
    """Ways of cutting `total` wire bytes into read segments."""
    out = [[total], [1] * total if total <= 600 else None]
    cuts = sorted(set(b + d for b in boundaries for d in (-2, -1, 0, 1, 2) if 0 < b + d < total))
    if not quick:
        cuts = sorted(set(cuts) | set(range(1, min(total, 400))))
    elif len(cuts) > 40:
        cuts = sorted(rnd.sample(cuts, 40))
    for c in cuts:
        out.append([c, total - c])
    for _ in range(3 if quick else 10):
        k = rnd.randint(2, 6)
        pts = sorted(rnd.sample(range(1, total), min(k, total - 1)))
        out.append([b - a for a, b in zip([0] + pts, pts + [total])])
    return [o for o in out if o]


def framing_family(rnd, quick):
    """C01: every malformed class at positions 1..3 of a pipeline of well-formed requests with bodies, cut everywhere."""
    cases = []
    goods = [{"m": "POST", "framing": {"k": "cl", "n": 5}}, {"m": "POST", "framing": {"k": "chunked", "chunks": [3, 4], "ext": True}},
             {"m": "GET"}, {"m": "POST", "framing": {"k": "chunked", "chunks": [], "te": "Chunked"}},
             {"m": "PUT", "framing": {"k": "chunked", "chunks": [17], "ext": ";a=\"b;c\""}}, {"m": "POST", "ver": 10, "framing": {"k": "cl", "n": 2}},
             {"m": "POST", "framing": {"k": "cl", "n": 0}}, {"m": "POST", "framing": {"k": "chunked", "chunks": [1, 1, 1], "te": " chunked"}}]
    bads = [{"m": "POST", "framing": {"k": c}} for c in BAD_HEAD] + \
           [{"m": "POST", "framing": {"k": "badchunk:" + c, "good": g}} for c in BAD_CHUNK for g in ([], [3])] + \
           [{"m": "POST", "ver": 10, "framing": {"k": "te10"}}]
    scen = []
    for b in bads:
        for pos in (1, 2, 3):
            pre = [dict(rnd.choice(goods)) for _ in range(pos - 1)]
            post = [dict(rnd.choice(goods))]
            scen.append(pre + [dict(b)] + post)
    for _ in range(6 if quick else 40):     # well-formed pipelines
        scen.append([dict(rnd.choice(goods)) for _ in range(rnd.randint(1, 4))])
    if quick:
        scen = rnd.sample(scen, 40)
    for reqs in scen:
        progs = [ok_prog() for _ in reqs]
        base = h1gen.assemble(reqs, progs, epilogue=False)
        bounds = []
        for g in base["gt"]:
            bounds += [g["start"], g["start"] + g["headlen"], g["end"]]
            if g["badoff"] >= 0:
                bounds.append(g["start"] + g["badoff"])
        for segs in seg_variants(rnd, base["total"], bounds, quick):
            c = h1gen.assemble(reqs, progs, steps=[{"seg": s} for s in segs], epilogue=True)
            c["origin"] = "framing-family"
            cases.append(c)
    return cases


def hugehead_family(rnd, quick):
    cases = []
    for pad, segsz in ((140000, 8192), (140000, 100000), (131072 - 60, 65536), (200000, 1)) if not quick else ((140000, 8192), (140000, 70000)):
        if segsz == 1:
            continue
        reqs = [{"m": "GET", "framing": {"k": "hugehead", "pad": pad}}, {"m": "GET"}]
        progs = [ok_prog(), ok_prog()]
        base = h1gen.assemble(reqs, progs, epilogue=False)
        steps, left = [], base["total"]
        while left > 0:
            s = min(segsz, left)
            steps.append({"seg": s})
            left -= s
        c = h1gen.assemble(reqs, progs, steps=steps, epilogue=True)
        if pad + 60 < 131072:
            # fits: not malformed
            continue
        c["origin"] = "hugehead"
        cases.append(c)
    return cases


# ---------------------------------------------------------------------------------------------
def mc_and_scripts(rep, cfgs, workers, timeout, max_scripts, rnd, probe=False):
    """Model-checks H1Conn with each config; returns concretised scripts (sampled when too many)."""
    cases = []
    for cfg in cfgs:
        res = vlib.run_tlc(AREA, "H1Conn", cfg, rep.workdir, workers=workers, timeout=timeout, xmx="10g")
        vlib.tlc_ok(res, "H1Conn " + cfg)
        rep.add_tlc("H1Conn/" + cfg, res, exhaustive=True)
        if res.distinct < 1000:
            raise vlib.ToolError("H1Conn explored suspiciously little with " + cfg)
        scripts = res.cases
        rep.cov.setdefault("scripts_generated", 0)
        rep.cov["scripts_generated"] += len(scripts)
        if len(scripts) > max_scripts:
            scripts = rnd.sample(scripts, max_scripts)
        for k, tc in enumerate(scripts):
            cases.append(concretize(tc, k, probe=probe))
    return cases


def selftest_corrupt(ev):
    out = [dict(e) for e in ev]
    for e in out:
        if e.get("ev") == "Resp" and not e.get("interim") and e.get("i", 0) >= 1:
            e["ver"] = 10 if e["ver"] == 11 else 11
            return out
    return None


def run_h1(rep, pid, mc_cfgs_quick, mc_cfgs_thorough, families, random_kwargs, n_random=(150, 2000), probe=False,
           max_scripts=(1200, 20000)):
    quick = rep.tier == "quick"
    rnd = random.Random(rep.seed * 7919 + int(pid[1:]))
    ar = vlib.Area(rep, AREA, "H1Trace", "Trace_%s.cfg" % pid)
    cases = mc_and_scripts(rep, mc_cfgs_quick if quick else mc_cfgs_thorough, 6 if quick else 12, 900 if quick else 3300,
                           max_scripts[0] if quick else max_scripts[1], rnd, probe=probe)
    rep.cov["exhaustive"] = False
    n_model = len(cases)
    for fam in families:
        cases += fam(rnd, quick)
    rc = [h1gen.random_case(rnd, probe=probe, **random_kwargs) for _ in range(n_random[0] if quick else n_random[1])]
    rep.cov["distinct_nontrivial"] = len({json.dumps(c["steps"]) + json.dumps(c["wire"])[:400] for c in cases + rc})
    rep.cov["rule"] = ("scripts = (a) environment-action histories of terminal states of the H1Conn model enumerated by TLC (sampled with the "
                       "run's seed when more than the tier's cap), concretised to bytes; (b) directed families over byte-level cuts and "
                       "malformed classes; (c) seeded random pipelines/programs/schedules. Every script is executed on the real dispatcher "
                       "under the wake-driven executor and its trace validated by TLC against H1Ref with Enforce={%s}; distinct = distinct "
                       "(wire, schedule) pairs" % pid)
    for c in cases[:2] + rc[:1]:
        rep.sample({"origin": c.get("origin", "random"), "wire": c["wire"][:6], "steps": c["steps"][:12], "progs": {k: v for k, v in list(c["progs"].items())[:2]}})
    tpath = ar.run_cases(cases + rc, "all", timeout=2400)
    ar.selftest(tpath, selftest_corrupt, "Resp.ver flipped")
    rep.cov["model_scripts_replayed"] = n_model
    rep.assumptions += ["request/response bodies are pattern bytes; heads are generated from a fixed grammar (lib/h1gen.py)",
                        "the client-side response parser in the harness (RFC 7230 3.3.3) is trusted",
                        "H1Conn abstracts bytes to units; byte-level cuts are covered by the directed families, not by the model"]
    return ar


def replay_h1(rep, pid, path):
    obj = json.load(open(path))
    case = obj.get("case") or obj
    ar = vlib.Area(rep, AREA, "H1Trace", "Trace_%s.cfg" % pid)
    ar.run_cases([case], "replay")
    rep.cov["samples"].append({"steps": case["steps"][:20]})
    rep.cov["distinct_nontrivial"] = 2
    rep.cov["states"] = max(rep.cov["states"], 1)
    rep.cov["transitions"] = max(rep.cov["transitions"], 1)
