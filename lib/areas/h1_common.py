"""HTTP/1 connection properties C01-C06: shared driver (DESIGN.md 4 C01-C06, spec/h1)."""
import json
import os
import random

import h1gen
import vlib

AREA = "h1"

BAD_HEAD = h1gen.BAD_HEAD
BAD_CHUNK = h1gen.BAD_CHUNK


# ---------------------------------------------------------------------------------------------
# concretisation of H1Conn scripts (units -> bytes)
# ---------------------------------------------------------------------------------------------
def concretize(tc, idx, probe=False):
    """tc: the CASE record printed by H1Conn (reqs, progs, steps in units, budget0, bad, half_closed, ka)."""
    n = len(tc["reqs"])
    bad = tc.get("bad", {"at": 0, "kind": ""})
    reqs, progs = [], []
    unit_bytes = []  # byte length of every wire unit, in order
    for j, (r, p) in enumerate(zip(tc["reqs"], tc["progs"])):
        i = j + 1
        kw = {"m": r["m"], "ver": r["ver"], "conn": r["conn"]}
        if r.get("expect"):
            kw["expect"] = True
        body = r["body"]
        if tc.get("upg", 0) == i:
            # the last request asks for an upgrade and an upgrade service is configured
            reqs.append({"m": "GET", "ver": 11, "conn": "upgrade", "extra": [["upgrade", "websocket"]]})
            progs.append({"pend": 0, "read": "none", "keep": "handler", "resp": {"status": 101, "conn": "-", "body": {"k": "empty"}}})
            continue
        if r["m"] == "GET" and body != "none":
            kw["m"] = "POST"
        if bad["at"] == i and bad["kind"] == "head":
            kw["framing"] = {"k": BAD_HEAD[idx % len(BAD_HEAD)]}
            kw["ver"] = 11
            if kw["m"] in ("GET", "HEAD"):
                kw["m"] = "POST"
        elif bad["at"] == i and bad["kind"] == "chunk":
            kw["framing"] = {"k": "badchunk:" + BAD_CHUNK[idx % len(BAD_CHUNK)], "good": [6]}
            kw["m"] = "POST"
            kw["ver"] = 11
        elif body == "cl":
            kw["framing"] = {"k": "cl", "n": 12}
        elif body == "ch":
            kw["framing"] = {"k": "chunked", "chunks": [6, 6]}
        reqs.append(kw)
        rb = p["rbody"]
        body_prog = {"empty": {"k": "empty"}, "bytes": {"k": "bytes", "chunks": [20]},
                     "stream": {"k": "body-stream", "chunks": [10, 10]}}[rb]
        progs.append({"pend": p["pend"], "read": p["read"], "keep": p["keep"],
                      "resp": {"status": p["status"], "conn": p["rconn"], "body": body_prog}})
    cfg = {"ka_ms": 5000 if tc.get("ka", True) else 0, "head_ms": 0, "disc_ms": 0, "half_closed": tc.get("half_closed", True),
           "upgrade": tc.get("upg", 0) != 0}
    b0 = tc.get("budget0", 99)
    sock = {"budget": -1 if b0 >= 99 else b0 * 37}
    case = h1gen.assemble(reqs, progs, cfg=cfg, sock=sock, epilogue=False, probe=probe)
    # byte length of each unit, in wire order
    for j, g in enumerate(case["gt"]):
        r = tc["reqs"][j]
        i = j + 1
        if tc.get("upg", 0) == i:
            unit_bytes.append(g["wirelen"])
        elif bad["at"] == i and bad["kind"] == "head":
            unit_bytes.append(g["wirelen"])
        elif bad["at"] == i and bad["kind"] == "chunk":
            good = 3 + 6 + 2
            unit_bytes += [g["headlen"], good, g["wirelen"] - g["headlen"] - good]
        elif r["body"] == "none" or (r["m"] == "HEAD"):
            unit_bytes.append(g["wirelen"])
        elif r["body"] == "cl":
            unit_bytes += [g["headlen"], 6, 6]
        else:
            unit_bytes += [g["headlen"], 3 + 6 + 2, 3 + 6 + 2, 5]
    assert sum(unit_bytes) == case["total"], (unit_bytes, case["total"])
    steps, pos = [], 0
    for s in tc["steps"]:
        if "seg" in s:
            k = s["seg"]
            steps.append({"seg": sum(unit_bytes[pos:pos + k])})
            pos += k
        elif "w" in s:
            steps.append({"w": -1 if s["w"] < 0 else 37})
        else:
            steps.append(s)
    case["steps"] = steps
    h1gen.add_epilogue(case)
    case["origin"] = "H1Conn"
    return case


def concretize_time(tc, probe=False):
    """tc: the CASE record printed by H1Time (scn, steps in units, half_closed)."""
    s = tc["scn"]
    r1 = {"m": "POST", "framing": {"k": "cl", "n": 12}} if s["body"] else {"m": "GET"}
    reqs = [r1] + ([{"m": "GET"}] if s["n"] == 2 else [])
    empty = {"status": 200, "conn": "-", "body": {"k": "empty"}}
    progs = [{"pend": s["pend"], "read": s["read"], "keep": s["keep"], "svc_err": bool(s.get("err", False)), "resp": dict(empty)}]
    if s["n"] == 2:
        progs.append({"pend": 0, "read": "none", "keep": "handler", "resp": dict(empty)})
    cfg = {"ka_ms": s["ka_ms"], "head_ms": s["head_ms"], "disc_ms": s["disc_ms"], "half_closed": tc.get("half_closed", True),
           "graceful": bool(s["grace"])}
    sock = {"shutdown": s["shut"]}
    if s.get("b0", 99) == 0:
        sock["budget"] = 0          # the socket accepts nothing until the script makes it writable
    case = h1gen.assemble(reqs, progs, cfg=cfg, sock=sock, epilogue=False, probe=probe)
    g1 = case["gt"][0]
    unit_bytes = [g1["headlen"] // 2, g1["headlen"] - g1["headlen"] // 2] + ([12] if s["body"] else [])
    if s["n"] == 2:
        unit_bytes.append(case["gt"][1]["wirelen"])
    assert sum(unit_bytes) == case["total"], (unit_bytes, case["total"])
    steps, pos = [], 0
    for st in tc["steps"]:
        if "seg" in st:
            k = st["seg"]
            steps.append({"seg": sum(unit_bytes[pos:pos + k])})
            pos += k
        else:
            steps.append(st)
    # two more seconds before the epilogue makes everything easy: a connection that the model says has ended by now must not
    # merely end because the epilogue unblocks the socket
    case["steps"] = steps + [{"tick": 1000}, {"tick": 1000}]
    h1gen.add_epilogue(case)
    case["origin"] = "H1Time"
    case["pred"] = tc.get("pred", [])
    case["model_script"] = {"scn": s, "steps": tc["steps"]}
    return case


def time_fidelity(rep, tpath, all_cases):
    """Model conformance (not a verdict): for every replayed H1Time script, what the model predicted the client sees up to the end
    of the script (response heads, how the task ended) against what the real dispatcher did. Disagreements are listed in the evidence."""
    want = {n + 1: c["pred"] for n, c in enumerate(all_cases) if "pred" in c}
    nsteps = {n + 1: len(c["model_script"]["steps"]) for n, c in enumerate(all_cases) if "pred" in c}
    horizon = {n + 1: sum(st.get("tick", 0) for st in c["model_script"]["steps"]) for n, c in enumerate(all_cases) if "pred" in c}
    if not want:
        return
    got, run, live, envs = {}, 0, False, 0
    with open(tpath) as f:
        for line in f:
            e = json.loads(line)
            ev = e.get("ev")
            if ev == "Reset":
                run, live, envs = e["run"], e["run"] in want, 0
                if live:
                    got[run] = []
            elif live:
                if ev in ("Feed", "Eof", "HTok", "Signal", "Tick", "Writable"):
                    envs += 1
                    if envs > nsteps[run]:
                        live = False        # the first step of the epilogue
                elif e.get("t", 0) > horizon[run]:
                    pass                    # beyond the model's clock (the grace ticks appended to the script)
                elif ev == "Resp" and not e.get("interim"):
                    got[run].append({"s": e["status"], "c": "close" if e.get("conn") == "close" else "-"})
                elif ev == "Done":
                    got[run].append({"s": 0, "c": "ok" if e["res"] == "ok" else "err:" + e.get("kind", "")})
    bad = []
    for n, pred in want.items():
        if got.get(n) != [{"s": x["s"], "c": x["c"]} for x in pred]:
            bad.append({"run": n, "script": all_cases[n - 1].get("model_script"), "model": pred, "impl": got.get(n)})
    rep.cov["model_conformance"] = {"scripts_compared": len(want), "agree": len(want) - len(bad), "disagree_examples": bad[:5]}
    print("[fidelity] H1Time predictions vs real dispatcher: %d/%d agree" % (len(want) - len(bad), len(want)))


def time_scripts(rep, cfgs, workers, timeout, max_scripts, rnd):
    """Model-checks H1Time (the dispatcher's timers, linger, shutdown and drain branches against H1Ref) and returns its scripts."""
    cases = []
    for cfg in cfgs:
        res = vlib.run_tlc(AREA, "H1Time", cfg, rep.workdir, workers=workers, timeout=timeout, xmx="10g")
        vlib.tlc_ok(res, "H1Time " + cfg)
        rep.add_tlc("H1Time/" + cfg, res, exhaustive=True)
        if res.distinct < 1000:
            raise vlib.ToolError("H1Time explored suspiciously little with " + cfg)
        scripts = res.cases
        rep.cov.setdefault("scripts_generated", 0)
        rep.cov["scripts_generated"] += len(scripts)
        if len(scripts) > max_scripts:
            scripts = rnd.sample(scripts, max_scripts)
        cases += [concretize_time(tc) for tc in scripts]
    return cases


def concretize_mem(tc):
    """tc: the CASE record printed by H1Mem (scn, steps in blocks of 8 KiB, pred)."""
    s = tc["scn"]
    BLK = 8192
    reqs = [{"m": "POST", "framing": {"k": "cl", "n": s["body"] * BLK}}]
    read = {"all": "all", "step": "step", "hold": "none"}[s["reader"]]
    body = {"k": "empty"} if s["chunks"] == 0 else {"k": "body-stream", "chunks": [2 * BLK] * s["chunks"]}
    progs = [{"pend": 1 if s["reader"] == "hold" else 0, "read": read, "keep": "handler", "resp": {"status": 200, "conn": "-", "body": body}}]
    cfg = {"mem": True, "quiet": True, "wbuf": 4 * BLK, "maxchunk": 2 * BLK, "head_ms": 0, "ka_ms": 5000}
    case = h1gen.assemble(reqs, progs, cfg=cfg, sock={"budget": -1 if s["b0"] >= 99 else s["b0"] * BLK}, epilogue=False)
    head = case["gt"][0]["headlen"]
    steps, first = [], True
    for st in tc["steps"]:
        if "seg" in st:
            steps.append({"seg": st["seg"] * BLK + (head if first else 0)})
            first = False
        elif "w" in st:
            steps.append({"w": st["w"] * BLK})
        else:
            steps.append(st)
    case["steps"] = steps + [{"tick": 100}]
    case["origin"] = "H1Mem"
    case["mem_pred"] = dict(tc.get("pred", {}), head=head)
    case["model_script"] = {"scn": s, "steps": tc["steps"]}
    return case


def mem_scripts(rep, cfgs, workers, timeout, max_scripts, rnd):
    """Model-checks H1Mem (what a connection buffers, in 8 KiB blocks, against the C05 clauses of H1Ref) and returns its scripts."""
    cases = []
    for cfg in cfgs:
        res = vlib.run_tlc(AREA, "H1Mem", cfg, rep.workdir, workers=workers, timeout=timeout, xmx="10g")
        vlib.tlc_ok(res, "H1Mem " + cfg)
        rep.add_tlc("H1Mem/" + cfg, res, exhaustive=True)
        if res.distinct < 1000:
            raise vlib.ToolError("H1Mem explored suspiciously little with " + cfg)
        scripts = res.cases
        rep.cov.setdefault("scripts_generated", 0)
        rep.cov["scripts_generated"] += len(scripts)
        if len(scripts) > max_scripts:
            scripts = rnd.sample(scripts, max_scripts)
        cases += [concretize_mem(tc) for tc in scripts]
    return cases


def mem_fidelity(rep, tpath, all_cases):
    """Model conformance (not a verdict): the accounting H1Mem predicts at the end of each replayed script (bytes taken from the
    socket, handed to the handler, pulled from the response body, accepted by the socket) against the real dispatcher's last Mem
    event, with a tolerance of eight blocks (the model reads whole 8 KiB blocks up to the cap, the code reads whatever the spare capacity
    of its buffer takes - the 64 KiB "one read" term of the bound)."""
    want = {n + 1: c["mem_pred"] for n, c in enumerate(all_cases) if "mem_pred" in c}
    if not want:
        return
    last, run = {}, 0
    with open(tpath) as f:
        for line in f:
            e = json.loads(line)
            if e.get("ev") == "Reset":
                run = e["run"]
            elif e.get("ev") == "Mem" and run in want:
                last[run] = e
    BLK, bad = 8192, []
    for n, p in want.items():
        e = last.get(n)
        if e is None:
            bad.append({"run": n, "why": "no Mem event"})
            continue
        diffs = {"taken": e["taken"] - (p["taken"] * BLK + (p["head"] if p["taken"] else 0)), "handed": e["handed"] - p["handed"] * BLK,
                 "pulled": e["pulled"] - p["pulled"] * BLK, "accepted_body": None}
        off = {k: v for k, v in diffs.items() if v is not None and abs(v) > 8 * BLK}
        if off:
            bad.append({"run": n, "script": all_cases[n - 1].get("model_script"), "model": p, "impl": {k: e[k] for k in ("taken", "handed", "pulled", "accepted")}, "off_by": off})
    rep.cov["model_conformance_mem"] = {"scripts_compared": len(want), "agree": len(want) - len(bad), "disagree_examples": bad[:5]}
    print("[fidelity] H1Mem predictions vs real dispatcher: %d/%d agree" % (len(want) - len(bad), len(want)))


# ---------------------------------------------------------------------------------------------
# directed families (quantifiers that the unit-level model abstracts: byte offsets, classes, sizes)
# ---------------------------------------------------------------------------------------------
def ok_prog(status=200, n=5, read="all", kind="bytes", **kw):
    p = {"pend": 0, "read": read, "keep": "handler", "resp": {"status": status, "conn": "-", "body": {"k": kind, "chunks": [n] if n else []}}}
    p.update(kw)
    return p


def seg_variants(rnd, total, boundaries, quick, must=()):
    """Ways of cutting `total` wire bytes into read segments (`must`: cut offsets that are kept in every tier)."""
    out = [[total], [1] * total if total <= 600 else None]
    cuts = sorted(set(b + d for b in boundaries for d in (-3, -2, -1, 0, 1, 2, 3) if 0 < b + d < total))
    if not quick:
        cuts = sorted(set(cuts) | set(range(1, min(total, 400))))
    elif len(cuts) > 60:
        cuts = sorted(rnd.sample(cuts, 60))
    cuts = sorted(set(cuts) | {c for c in must if 0 < c < total})
    for c in cuts:
        out.append([c, total - c])
    for _ in range(3 if quick else 10):
        k = rnd.randint(2, 6)
        pts = sorted(rnd.sample(range(1, total), min(k, total - 1)))
        out.append([b - a for a, b in zip([0] + pts, pts + [total])])
    return [o for o in out if o]


def framing_family(rnd, quick):
    """C01: every malformed class at positions 1..3 of a pipeline of well-formed requests with bodies, cut everywhere."""
    cases = []
    goods = [{"m": "POST", "framing": {"k": "cl", "n": 5}}, {"m": "POST", "framing": {"k": "chunked", "chunks": [3, 4], "ext": True}},
             {"m": "GET"}, {"m": "POST", "framing": {"k": "chunked", "chunks": [], "te": "Chunked"}},
             {"m": "PUT", "framing": {"k": "chunked", "chunks": [17], "ext": ";a=\"b;c\""}}, {"m": "POST", "ver": 10, "framing": {"k": "cl", "n": 2}},
             {"m": "POST", "framing": {"k": "cl", "n": 0}}, {"m": "POST", "framing": {"k": "chunked", "chunks": [1, 1, 1], "te": " chunked"}},
             {"m": "POST", "framing": {"k": "chunked", "chunks": [0x100]}}, {"m": "POST", "framing": {"k": "chunked", "chunks": [0xabc, 0x10]}},
             {"m": "PUT", "framing": {"k": "chunked", "chunks": [0x1000, 0x123], "ext": ";q"}}, {"m": "POST", "framing": {"k": "chunked", "chunks": [0x10001]}},
             {"m": "POST", "framing": {"k": "cl", "n": 300}}, {"m": "POST", "framing": {"k": "cl", "n": 7, "ows": True}},
             {"m": "PUT", "ver": 10, "conn": "keep-alive", "framing": {"k": "cl", "n": 4, "ows": True}}]
    bads = [{"m": "POST", "framing": {"k": c}} for c in BAD_HEAD] + \
           [{"m": "POST", "framing": {"k": "badchunk:" + c, "good": g}} for c in BAD_CHUNK for g in ([], [3])] + \
           [{"m": m10, "ver": 10, "framing": {"k": "te10"}} for m10 in ("POST", "PUT", "GET")]
    scen = []
    for b in bads:
        for pos in (1, 2, 3):
            pre = [dict(rnd.choice(goods)) for _ in range(pos - 1)]
            post = [dict(rnd.choice(goods))]
            scen.append(pre + [dict(b)] + post)
    wf = []
    for _ in range(10 if quick else 60):     # well-formed pipelines
        wf.append([dict(rnd.choice(goods)) for _ in range(rnd.randint(1, 4))])
    wf += [[dict(g)] for g in goods]         # and every well-formed framing alone
    if quick:
        # every malformed class once, at a position drawn with the run's seed
        by_cls = {}
        for sc in scen:
            bad = next(r for r in sc if r.get("framing", {}).get("k") in BAD_HEAD or str(r.get("framing", {}).get("k", "")).startswith("badchunk") or r.get("framing", {}).get("k") == "te10")
            by_cls.setdefault(json.dumps(bad["framing"], sort_keys=True) + (bad["m"] if bad["framing"]["k"] == "te10" else ""), []).append(sc)
        scen = [rnd.choice(v) for _, v in sorted(by_cls.items())]
    scen += wf
    for reqs in scen:
        progs = [ok_prog() for _ in reqs]
        base = h1gen.assemble(reqs, progs, epilogue=False)
        bounds = []
        for g in base["gt"]:
            bounds += [g["start"], g["start"] + g["headlen"], g["end"]]
            if g["badoff"] >= 0:
                bounds.append(g["start"] + g["badoff"])
        off = 0
        must = []
        for part in base["wire"]:        # every part boundary: chunk-size lines, chunk data, CRLFs
            bounds.append(off)
            if part.get("bad") and "s" in part:
                must += list(range(off, off + len(part["s"]) + 1))      # every offset inside the malformed chunk text
            off += len(part["s"]) if "s" in part else (part["body"][2] if "body" in part else part["fill"][1])
        for segs in seg_variants(rnd, base["total"], bounds, quick, must=must):
            c = h1gen.assemble(reqs, progs, steps=[{"seg": s} for s in segs], epilogue=True)
            c["origin"] = "framing-family"
            cases.append(c)
    return cases


def hugehead_family(rnd, quick):
    cases = []
    for pad, segsz in ((140000, 8192), (140000, 100000), (131072 - 60, 65536), (200000, 1)) if not quick else ((140000, 8192), (140000, 70000)):
        if segsz == 1:
            continue
        reqs = [{"m": "GET", "framing": {"k": "hugehead", "pad": pad}}, {"m": "GET"}]
        progs = [ok_prog(), ok_prog()]
        base = h1gen.assemble(reqs, progs, epilogue=False)
        steps, left = [], base["total"]
        while left > 0:
            s = min(segsz, left)
            steps.append({"seg": s})
            left -= s
        c = h1gen.assemble(reqs, progs, steps=steps, epilogue=True)
        if c["gt"][0]["headlen"] < 131072:
            # the head fits into the read buffer: not malformed (the generator labels every "hugehead" request as rejected)
            continue
        c["origin"] = "hugehead"
        cases.append(c)
    return cases


# ---------------------------------------------------------------------------------------------
def mc_and_scripts(rep, cfgs, workers, timeout, max_scripts, rnd, probe=False):
    """Model-checks H1Conn with each config; returns concretised scripts (sampled when too many)."""
    cases = []
    for cfg in cfgs:
        res = vlib.run_tlc(AREA, "H1Conn", cfg, rep.workdir, workers=workers, timeout=timeout, xmx="10g")
        vlib.tlc_ok(res, "H1Conn " + cfg)
        rep.add_tlc("H1Conn/" + cfg, res, exhaustive=True)
        if res.distinct < 1000:
            raise vlib.ToolError("H1Conn explored suspiciously little with " + cfg)
        scripts = res.cases
        rep.cov.setdefault("scripts_generated", 0)
        rep.cov["scripts_generated"] += len(scripts)
        if len(scripts) > max_scripts:
            scripts = rnd.sample(scripts, max_scripts)
        for k, tc in enumerate(scripts):
            cases.append(concretize(tc, k, probe=probe))
    return cases


def selftest_corrupt(pid):
    """A corruption of a recorded trace that the clauses of `pid` must reject (binding self-test)."""
    def f(ev):
        out = [dict(e) for e in ev]
        for n, e in enumerate(out):
            if pid == "C02" and e.get("ev") == "Resp" and not e.get("interim") and e.get("i", 0) >= 1:
                e["ver"] = 10 if e["ver"] == 11 else 11
                return out
            if pid in ("C01", "C03") and e.get("ev") == "Call":
                e["tok"] = False
                return out
            if pid == "C04" and e.get("ev") == "Call":
                out.insert(n + 1, {"ev": "Stall", "polls": 1, "t": e["t"]})
                return out
            if pid == "C05" and e.get("ev") == "Mem":
                e["taken"] = e["taken"] + 50000000
                return out
            if pid == "C06" and e.get("ev") == "Resp" and e.get("status") == 408:
                e["t"] = 0
                return out
        return None
    return f


def run_h1(rep, pid, mc_cfgs_quick, mc_cfgs_thorough, families, random_kwargs, n_random=(150, 2000), probe=False,
           max_scripts=(1200, 20000), time_cfgs=None, max_time_scripts=(1500, 30000), mem_cfgs=None, max_mem_scripts=(600, 20000)):
    quick = rep.tier == "quick"
    rnd = random.Random(rep.seed * 7919 + int(pid[1:]))
    ar = vlib.Area(rep, AREA, "H1Trace", "Trace_%s.cfg" % pid)
    cases = mc_and_scripts(rep, mc_cfgs_quick if quick else mc_cfgs_thorough, 6 if quick else 12, 900 if quick else 3300,
                           max_scripts[0] if quick else max_scripts[1], rnd, probe=probe)
    if time_cfgs:
        cases += time_scripts(rep, time_cfgs[0] if quick else time_cfgs[1], 6 if quick else 12, 900 if quick else 3300,
                              max_time_scripts[0] if quick else max_time_scripts[1], rnd)
    if mem_cfgs:
        cases += mem_scripts(rep, mem_cfgs[0] if quick else mem_cfgs[1], 8 if quick else 12, 900 if quick else 3300,
                             max_mem_scripts[0] if quick else max_mem_scripts[1], rnd)
    rep.cov["exhaustive"] = False
    n_model = len(cases)
    for fam in families:
        cases += fam(rnd, quick)
    rc = [h1gen.random_case(rnd, probe=probe, **random_kwargs) for _ in range(n_random[0] if quick else n_random[1])]
    rep.cov["distinct_nontrivial"] = len({json.dumps(c["steps"]) + json.dumps(c["wire"])[:400] for c in cases + rc})
    rep.cov["rule"] = ("scripts = (a) environment-action histories of terminal states of the H1Conn model enumerated by TLC (sampled with the "
                       "run's seed when more than the tier's cap), concretised to bytes; (b) directed families over byte-level cuts and "
                       "malformed classes; (c) seeded random pipelines/programs/schedules. Every script is executed on the real dispatcher "
                       "under the wake-driven executor and its trace validated by TLC against H1Ref with Enforce={%s}; distinct = distinct "
                       "(wire, schedule) pairs" % pid)
    for c in cases[:2] + rc[:1]:
        rep.sample({"origin": c.get("origin", "random"), "wire": c["wire"][:6], "steps": c["steps"][:12], "progs": {k: v for k, v in list(c["progs"].items())[:2]}})
    tpath = ar.run_cases(cases + rc, "all", timeout=2400)
    time_fidelity(rep, tpath, cases + rc)
    mem_fidelity(rep, tpath, cases + rc)
    ar.selftest(tpath, selftest_corrupt(pid), "one observation corrupted (per-property: Call.tok / Resp.ver / inserted Stall / Mem / Done.t)")
    rep.cov["model_scripts_replayed"] = n_model
    rep.assumptions += ["request/response bodies are pattern bytes; heads are generated from a fixed grammar (lib/h1gen.py)",
                        "the client-side response parser in the harness (RFC 7230 3.3.3) is trusted",
                        "H1Conn abstracts bytes to units; byte-level cuts are covered by the directed families, not by the model"]
    return ar


def replay_h1(rep, pid, path):
    obj = json.load(open(path))
    case = obj.get("case") or obj
    ar = vlib.Area(rep, AREA, "H1Trace", "Trace_%s.cfg" % pid)
    ar.run_cases([case], "replay")
    rep.cov["samples"].append({"steps": case["steps"][:20]})
    rep.cov["distinct_nontrivial"] = 2
    rep.cov["states"] = max(rep.cov["states"], 1)
    rep.cov["transitions"] = max(rep.cov["transitions"], 1)


# ---------------------------------------------------------------------------------------------
# C06 (time) and C05 (memory) directed families
# ---------------------------------------------------------------------------------------------
def ticks(ms, slice_ms=250):
    out = []
    while ms > 0:
        d = min(slice_ms, ms)
        out.append({"tick": d})
        ms -= d
    return out


def time_family(rnd, quick):
    """C06: arrival instants of head bytes / requests / signal relative to the three timers, all timer configurations."""
    cases = []
    cfgs = []
    for head in (0, 1000):
        for ka in (0, 1000):
            for disc in (0, 1000):
                for half in (True, False):
                    cfgs.append({"ka_ms": ka, "head_ms": head, "disc_ms": disc, "half_closed": half})
    if quick:
        cfgs = rnd.sample(cfgs, 8)
    socks = [{}, {"shutdown": "never"}, {"budget": 0}] if not quick else [{}, {"shutdown": "never"}]
    for cfg in cfgs:
        for sock in socks:
            two = [{"m": "GET"}, {"m": "GET"}]
            progs = [ok_prog(read="none"), ok_prog(read="none")]
            b1 = h1gen.assemble(two, progs, cfg=cfg, sock=sock, epilogue=False)
            h1len = b1["gt"][0]["end"]
            # (a) slow head: k bytes at time a, the rest at time b (before / at / after the head deadline)
            for a, b in ((0, 500), (0, 900), (0, 1000), (0, 1100), (0, 1600), (400, 2500), (0, 99999)):
                steps = ticks(a) + [{"seg": 5}] + (ticks(b - a) + [{"seg": b1["total"] - 5}] if b < 99999 else ticks(4000))
                c = h1gen.assemble(two, progs, cfg=cfg, sock=sock, steps=steps, epilogue=True)
                c["origin"] = "time/slow-head"
                cases.append(c)
            # (b) keep-alive: second request arrives d ms after the first response
            for d in (100, 500, 900, 1000, 1100, 1700, 3000):
                steps = [{"seg": h1len}] + ticks(d) + [{"seg": b1["total"] - h1len}] + ticks(3000)
                c = h1gen.assemble(two, progs, cfg=cfg, sock=sock, steps=steps, epilogue=True)
                c["origin"] = "time/keep-alive"
                cases.append(c)
            # (c) nothing ever arrives / idle after one request; partial second head during keep-alive
            for steps in ([{"seg": h1len}] + ticks(4000), ticks(4000), [{"seg": h1len}] + ticks(500) + [{"seg": 3}] + ticks(4000)):
                c = h1gen.assemble(two, progs, cfg=cfg, sock=sock, steps=list(steps), epilogue=True)
                c["origin"] = "time/idle"
                cases.append(c)
    # (e) a chunked upload answered without reading it, its body arrives after the response and is drained; then the line stays idle
    for cfg in ({"ka_ms": 1000, "head_ms": 0}, {"ka_ms": 1000, "head_ms": 0, "disc_ms": 1000}):
        reqs = [{"m": "POST", "framing": {"k": "chunked", "chunks": [20, 20, 20]}}]
        progs = [{"pend": 0, "read": "none", "keep": "drop", "resp": {"status": 200, "conn": "-", "body": {"k": "bytes", "chunks": [2]}}}]
        base = h1gen.assemble(reqs, progs, epilogue=False)
        h = base["gt"][0]["headlen"]
        steps = [{"seg": h}, {"tick": 50}, {"seg": 30}, {"tick": 50}, {"seg": base["total"] - h - 30}] + ticks(3500)
        c = h1gen.assemble(reqs, progs, cfg=cfg, steps=steps, epilogue=True)
        c["origin"] = "time/drained-upload-then-idle"
        cases.append(c)
    # (g) the shutdown signal fires while a handler is pending that will fail: its error response is the in-flight answer
    for status, kind in ((500, "empty"), (503, "bytes")):
        reqs = [{"m": "GET"}, {"m": "GET"}]
        progs = [{"pend": 1, "read": "none", "keep": "handler", "svc_err": True, "resp": {"status": status, "conn": "-", "body": {"k": kind, "chunks": [5] if kind == "bytes" else []}}},
                 ok_prog(read="none")]
        base = h1gen.assemble(reqs, progs, epilogue=False)
        for cfg in ({"graceful": True}, {"graceful": True, "disc_ms": 1000}, {"graceful": True, "ka_ms": 0}):
            for steps in ([{"seg": base["gt"][0]["end"]}, {"tick": 10}, {"sig": 1}, {"tick": 10}, {"h": 1}, {"tick": 10}, {"seg": 1000}],
                          [{"seg": base["total"]}, {"tick": 10}, {"sig": 1}, {"tick": 10}, {"h": 1}, {"tick": 10}]):
                c = h1gen.assemble(reqs, progs, cfg=cfg, steps=list(steps), epilogue=True)
                c["origin"] = "time/signal-then-handler-error"
                cases.append(c)
    # (f) the shutdown signal fires while the body of the request in flight is still arriving
    for framing in ({"k": "cl", "n": 30}, {"k": "chunked", "chunks": [10, 10, 10]}):
        reqs = [{"m": "POST", "framing": framing}, {"m": "GET"}]
        progs = [ok_prog(read="all"), ok_prog(read="none")]
        base = h1gen.assemble(reqs, progs, epilogue=False)
        h = base["gt"][0]["headlen"]
        e1 = base["gt"][0]["end"]
        for sig_at in (1, 2, 3):
            steps = [{"seg": h}, {"tick": 10}, {"seg": 12}, {"tick": 10}, {"seg": e1 - h - 12}, {"tick": 10}, {"seg": 1000}]
            steps.insert(sig_at * 2 - 1, {"sig": 1})
            for cfg in ({"graceful": True}, {"graceful": True, "disc_ms": 1000}):
                c = h1gen.assemble(reqs, progs, cfg=cfg, steps=steps, epilogue=True)
                c["origin"] = "time/signal-during-body"
                cases.append(c)
    # (d) graceful shutdown signal at every point of a 3-request exchange with slow handlers
    three = [{"m": "GET"}, {"m": "POST", "framing": {"k": "cl", "n": 4}}, {"m": "GET"}]
    progs3 = [ok_prog(read="none", pend=1), ok_prog(read="all", pend=1, kind="body-stream"), ok_prog(read="none")]
    progs3[1]["resp"]["body"] = {"k": "body-stream", "chunks": [3, 3], "pend": [0, 1]}
    base_steps = [{"seg": 29}, {"h": 1}, {"seg": 60}, {"tick": 100}, {"h": 2}, {"b": 2}, {"seg": 1000}, {"tick": 100}]
    for pos in range(len(base_steps) + 1):
        for cfg in ({"graceful": True}, {"graceful": True, "disc_ms": 1000}, {"graceful": True, "ka_ms": 0}):
            steps = base_steps[:pos] + [{"sig": 1}] + base_steps[pos:]
            c = h1gen.assemble(three, progs3, cfg=cfg, steps=steps, epilogue=True)
            c["origin"] = "time/graceful"
            cases.append(c)
    return cases


def mem_family(rnd, quick):
    """C05: peers that send much and consumers / sockets that take little; every scenario at input size X and 4X."""
    cases = []
    MB = 1 << 20
    sizes = (1 * MB, 4 * MB) if quick else (1 * MB, 4 * MB, 16 * MB)
    for total in sizes:
        seg = 65536
        for wbuf in ((0,) if quick else (0, 4096, 262144)):
            base_cfg = {"mem": True, "quiet": True, "wbuf": wbuf, "head_ms": 0, "ka_ms": 0, "maxchunk": 16384}
            # (1) huge declared body, handler holds the payload and never reads / reads one chunk per token
            for read, npend in (("none", 1), ("n:3", 1)):
                reqs = [{"m": "POST", "framing": {"k": "cl", "n": total}}]
                progs = [{"pend": npend, "read": read, "keep": "handler", "pend2": 1, "resp": {"status": 200, "conn": "-", "body": {"k": "empty"}}}]
                steps = [{"seg": seg} for _ in range(total // seg + 2)]
                c = h1gen.assemble(reqs, progs, cfg=base_cfg, steps=steps, epilogue=False)
                c["steps"] += [{"h": 1}, {"h": 1}, {"eof": 1}, {"tick": 600}]
                c["origin"] = "mem/body-stuck-consumer"
                cases.append(c)
            # (2) chunked body of many chunks, consumer never reads
            nch = total // 8192
            reqs = [{"m": "POST", "framing": {"k": "chunked", "chunks": [8192] * nch}}]
            progs = [{"pend": 1, "read": "none", "keep": "handler", "pend2": 0, "resp": {"status": 200, "conn": "-", "body": {"k": "empty"}}}]
            c = h1gen.assemble(reqs, progs, cfg=base_cfg, steps=[{"seg": seg} for _ in range(total // seg + 40)], epilogue=False)
            c["steps"] += [{"h": 1}, {"eof": 1}, {"tick": 600}]
            c["origin"] = "mem/chunked-stuck-consumer"
            cases.append(c)
            # (3) head that never ends (one endless header line / endless header lines)
            for filler in ("line", "lines"):
                wire = [{"s": "GET /r1 HTTP/1.1\r\nhost: t\r\nx-a: "}, {"fill": [ord("a"), total]}] if filler == "line" else \
                       [{"s": "GET /r1 HTTP/1.1\r\nhost: t\r\n"}] + [{"s": "x-h: " + "v" * 100 + "\r\n"} for _ in range(min(total // 107, 3000))]
                c = h1gen.assemble([{"m": "GET"}], [ok_prog()], cfg=base_cfg, steps=[], epilogue=False)
                c["wire"] = wire
                tot = sum(len(p["s"]) if "s" in p else p["fill"][1] for p in wire)
                c["total"] = tot
                c["gt"][0].update({"bad": "hugehead", "wirelen": tot, "headlen": tot, "end": tot})
                c["rej"] = {"at": 1, "off": 0, "detect": 131072, "cls": "hugehead", "status": 431, "kind": "head"}
                c["steps"] = [{"seg": seg} for _ in range(tot // seg + 2)] + [{"tick": 600}]
                c["origin"] = "mem/endless-head"
                cases.append(c)
            # (4) big streaming response body against a socket that accepts little
            nchunks = total // 16384
            reqs = [{"m": "GET"}]
            # (the service may also fail with an error whose response carries the big body: a separate send loop in the dispatcher)
            for kind, svc_err, status in (("body-stream", False, 200), ("sized-stream", False, 200), ("body-stream", True, 500), ("sized-stream", True, 503)):
                progs = [{"pend": 0, "read": "none", "keep": "handler", "svc_err": svc_err,
                          "resp": {"status": status, "conn": "-", "body": {"k": kind, "chunks": [16384] * nchunks}}}]
                c = h1gen.assemble(reqs, progs, cfg=base_cfg, sock={"budget": 0}, steps=[{"seg": 100}] + [{"w": 1000} for _ in range(50)], epilogue=False)
                c["steps"] += [{"tick": 600}]
                c["origin"] = "mem/slow-socket-streaming-response" + ("-of-service-error" if svc_err else "")
                cases.append(c)
        # (5) thousands of tiny pipelined requests against a stuck first handler / a socket that never accepts
        nreq = total // 32
        reqs = [{"m": "GET", "ver": 11, "target": "/r1"}]
        cfg5 = {"mem": True, "quiet": True, "head_ms": 0, "ka_ms": 5000, "maxchunk": 16}
        for stuck, sock in (("handler", {}), ("socket", {"budget": 0})):
            progs = [{"pend": 1 if stuck == "handler" else 0, "read": "none", "keep": "handler", "resp": {"status": 200, "conn": "-", "body": {"k": "empty"}}}]
            c = h1gen.assemble(reqs, progs, cfg=cfg5, sock=sock, steps=[], epilogue=False)
            one = "GET /r1 HTTP/1.1\r\nhost: t\r\n\r\n"
            c["wire"] = [{"s": one * 512} for _ in range(max(1, nreq // 512))]
            c["total"] = sum(len(p["s"]) for p in c["wire"])
            n = c["total"] // len(one)
            c["gt"] = [dict(c["gt"][0], start=k * len(one), end=(k + 1) * len(one)) for k in range(min(n, 40))]
            c["pf"] = [c["pf"][0]] * len(c["gt"])
            c["methods"] = ["GET"] * n
            c["steps"] = [{"seg": seg} for _ in range(c["total"] // seg + 2)] + [{"tick": 600}]
            c["cfg"] = dict(c["cfg"], qallow=(196608 // len(one)) * 8192 if stuck == "handler" else 0)
            c["origin"] = "mem/pipelined-tiny-requests-stuck-" + stuck
            cases.append(c)
    return cases


# ---------------------------------------------------------------------------------------------
# further directed families (C03 reuse discipline, C04 progress)
# ---------------------------------------------------------------------------------------------
def reuse_family(rnd, quick):
    """C03: early responses with unread bodies that arrive later, close requested by either side, a following request;
    error responses against a socket that is not writable when they are first flushed."""
    cases = []
    for framing in ({"k": "cl", "n": 40}, {"k": "chunked", "chunks": [10, 30]}, {"k": "chunked", "chunks": [5] * 8}):
        for rconn, qconn in (("-", "-"), ("close", "-"), ("-", "close"), ("keep-alive", "-")):
            for keep in ("drop", "handler"):
                for read in ("none", "n:1"):
                  for rbody in ({"k": "bytes", "chunks": [4]}, {"k": "empty"}, {"k": "body-stream", "chunks": [3, 3]}):
                    reqs = [{"m": "POST", "conn": qconn, "framing": framing}, {"m": "GET"}, {"m": "GET"}]
                    progs = [{"pend": 0, "read": read, "keep": keep, "resp": {"status": 200, "conn": rconn, "body": rbody}},
                             ok_prog(read="none"), ok_prog(read="none")]
                    base = h1gen.assemble(reqs, progs, epilogue=False)
                    h = base["gt"][0]["headlen"]
                    end1 = base["gt"][0]["end"]
                    total = base["total"]
                    for cuts in ([h, end1 - h, total - end1], [h + 3, 5, end1 - h - 8, total - end1], [h, (end1 - h) // 2, end1 - h - (end1 - h) // 2, 10, total - end1 - 10]):
                        steps = []
                        for c in cuts:
                            steps += [{"seg": c}, {"tick": 10}]
                        for cfgk in ({}, {"disc_ms": 1000}, {"ka_ms": 0}):
                            c = h1gen.assemble(reqs, progs, cfg=cfgk, steps=steps, epilogue=True)
                            c["origin"] = "reuse/early-response"
                            cases.append(c)
    # parse / size errors while the socket is not writable at first
    for bad in ({"k": "hugehead", "pad": 140000}, {"k": "cl+te"}, {"k": "dupcl"}):
        for budget in (0, 1, 20):
            reqs = [{"m": "POST", "framing": bad}, {"m": "GET"}]
            steps = [{"seg": 70000}, {"seg": 70000}, {"tick": 10}, {"seg": 100000}, {"w": 5}, {"tick": 10}, {"w": 30}, {"tick": 10}, {"w": 7}]
            c = h1gen.assemble(reqs, [ok_prog(), ok_prog()], sock={"budget": budget}, steps=steps, epilogue=True)
            c["origin"] = "reuse/error-response-blocked-socket"
            cases.append(c)
    if quick:
        cases = rnd.sample(cases, 200)
    return cases


def context_family(rnd, quick):
    """C02: the framing of a response depends on its own request only - also when that request waited in the queue, its handler is
    still pending, and a request with other attributes (HEAD, version, Connection) is decoded meanwhile."""
    cases = []
    kinds = [{"m": "GET"}, {"m": "HEAD"}, {"m": "GET", "ver": 10}, {"m": "GET", "ver": 10, "conn": "keep-alive"}, {"m": "GET", "conn": "close"}]
    for a in kinds:
        for b in kinds:
            if a == b:
                continue
            reqs = [{"m": "GET"}, dict(a), dict(b)]
            progs = [dict(ok_prog(read="none", n=3), pend=1), dict(ok_prog(read="none", n=7), pend=1), ok_prog(read="none", n=5)]
            base = h1gen.assemble(reqs, progs, epilogue=False)
            e2 = base["gt"][1]["end"]
            # 1 and 2 arrive; 1 is answered, 2 is taken from the queue and its handler waits; 3 arrives; 2 is released
            steps = [{"seg": e2}, {"tick": 10}, {"h": 1}, {"tick": 10}, {"seg": base["total"] - e2}, {"tick": 10}, {"h": 2}, {"tick": 10}]
            for body2 in ({"k": "bytes", "chunks": [7]}, {"k": "body-stream", "chunks": [3, 4]}):
                progs2 = [progs[0], dict(progs[1], resp=dict(progs[1]["resp"], body=body2)), progs[2]]
                c = h1gen.assemble(reqs, progs2, steps=list(steps), epilogue=True)
                c["origin"] = "context/queued-request-answered-after-a-later-one-was-decoded"
                cases.append(c)
    if quick:
        cases = rnd.sample(cases, 24)
    return cases


def progress_family(rnd, quick):
    """C04: bursts larger than the read buffer, upgrade hand-off with a response still buffered, many queued requests behind a slow
    handler, partial writes of every size."""
    cases = []
    # (a) > 128 KiB of pipelined requests readable at once
    for n, pad in ((420, 330), (900, 150)) if not quick else ((420, 330),):
        reqs = [{"m": "GET", "head_pad": pad} for _ in range(n)]
        progs = [ok_prog(read="none", n=3) for _ in range(n)]
        for probe in (True,):
            c = h1gen.assemble(reqs, progs, steps=[{"seg": 10 ** 7}], epilogue=True, probe=probe)
            c["origin"] = "progress/burst-over-read-buffer"
            cases.append(c)
    # (b) more than 16 queued requests behind a slow first handler, then everything is released
    for n in (20, 40):
        reqs = [{"m": "GET"} for _ in range(n)]
        progs = [dict(ok_prog(read="none", n=2), pend=1)] + [ok_prog(read="none", n=2) for _ in range(n - 1)]
        base = h1gen.assemble(reqs, progs, epilogue=False)
        one = base["gt"][0]["end"]
        for k in (17, n - 1):
            steps = [{"seg": one * k}, {"tick": 10}, {"seg": one * (n - k)}, {"tick": 10}, {"h": 1}, {"tick": 10}]
            c = h1gen.assemble(reqs, progs, steps=steps, epilogue=True, probe=True)
            c["origin"] = "progress/queue-full"
            cases.append(c)
    # (c) an ordinary request pipelined right before an upgrade request (upgrade service configured)
    for first_body in (2, 3000):
        for budget in (-1, 0, 10):
            reqs = [{"m": "GET"}, {"m": "GET", "conn": "upgrade", "extra": [["upgrade", "websocket"]]}]
            progs = [ok_prog(read="none", n=first_body), {"pend": 0, "read": "none", "keep": "handler", "resp": {"status": 101, "conn": "-", "body": {"k": "empty"}}}]
            base = h1gen.assemble(reqs, progs, epilogue=False)
            for steps in ([{"seg": base["total"]}], [{"seg": base["gt"][0]["end"] + 5}, {"tick": 10}, {"seg": base["total"]}]):
                st = list(steps) + [{"w": 40}, {"tick": 10}, {"w": 4000}]
                c = h1gen.assemble(reqs, progs, cfg={"upgrade": True}, sock={"budget": budget}, steps=st, epilogue=True, probe=True)
                c["origin"] = "progress/upgrade-handoff"
                cases.append(c)
    # (e) a big body consumed by a task of its own, slower than the socket: the connection task depends on that task's wake-ups
    for total, seg in ((300000, 65536), (200000, 200000)):
        for framing in ({"k": "cl", "n": total}, {"k": "chunked", "chunks": [total // 4] * 4}):
            reqs = [{"m": "POST", "framing": framing}, {"m": "GET"}]
            progs = [{"pend": 0, "read": "task", "keep": "handler", "resp": {"status": 200, "conn": "-", "body": {"k": "bytes", "chunks": [3]}}}, ok_prog(read="none", n=2)]
            base = h1gen.assemble(reqs, progs, epilogue=False)
            steps = [{"seg": seg} for _ in range(base["total"] // seg + 1)] + [{"tick": 10}]
            c = h1gen.assemble(reqs, progs, cfg={"quiet": False}, steps=steps, epilogue=True, probe=True)
            c["origin"] = "progress/body-consumed-by-another-task"
            cases.append(c)
    # (d) 408 against a socket whose first flush blocks
    for budget in (0, 3):
        c = h1gen.assemble([{"m": "GET"}], [ok_prog()], cfg={"head_ms": 1000}, sock={"budget": budget},
                           steps=[{"seg": 5}] + ticks(1700) + [{"w": 20}, {"tick": 100}, {"w": 500}], epilogue=True, probe=True)
        c["origin"] = "progress/408-blocked-flush"
        cases.append(c)
    return cases
