"""C05 (see DESIGN.md section 4 C05): driver on top of areas.h1_common."""
from areas import h1_common as H

PID = "C05"


def run(rep):
    H.run_h1(rep, PID, ["MC_C04_quick.cfg"], ["MC_C04_thorough.cfg"], [H.mem_family],
             dict(allow_bad=0.1, one_byte=0.0, budget=0.5, faults=False), n_random=(20, 200), max_scripts=(50, 500),
             mem_cfgs=(["MC_Mem_quick.cfg"], ["MC_Mem_thorough.cfg"]))
    rep.assumptions += ["live heap is measured by a counting global allocator in the harness process and includes the harness's own "
                        "bookkeeping (reported per event and added to the bound)"]


def replay(rep, path):
    H.replay_h1(rep, PID, path)
