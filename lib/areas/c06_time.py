"""C06 (see DESIGN.md section 4 C06): driver on top of areas.h1_common."""
from areas import h1_common as H

PID = "C06"


def run(rep):
    H.run_h1(rep, PID, ["MC_C04_quick.cfg"], ["MC_C04_thorough.cfg"], [H.time_family],
             dict(allow_bad=0.1, one_byte=0.1, budget=0.2, faults=False), n_random=(100, 1500), max_scripts=(100, 1000),
             time_cfgs=(["MC_Time_quick.cfg", "MC_Time_blocked.cfg"], ["MC_Time_thorough.cfg", "MC_Time_thorough_b.cfg", "MC_Time_blocked.cfg"]))


def replay(rep, path):
    H.replay_h1(rep, PID, path)
