"""C09 app routing: first registered match, exactly its parameters (spec/routing)."""
import json
import random

import vlib

AREA = "routing"
SEGS = [[], ["a"], ["b"], ["1"], ["a", "%", "2", "F", "b"]]


def probe_paths():
    ps = [["/"]]
    ne = [s for s in SEGS if s]
    ps += [["/"] + s for s in ne]
    ps += [["/"] + s1 + ["/"] + s2 for s1 in ne for s2 in SEGS]
    ps += [["/"] + s1 + ["/"] + s2 + ["/"] + s3 for s1 in (["a"], ["1"]) for s2 in (["b"], ["1"]) for s3 in (["b"], ["a"], [])]
    return ps


def corrupt(ev):
    out = [dict(e) for e in ev]
    for e in out:
        if e.get("ev") == "route" and e.get("status") == 200 and e.get("id"):
            e["id"] = e["id"] + 1
            return out
    return None


def run(rep):
    quick = rep.tier == "quick"
    rnd = random.Random(rep.seed * 911 + 9)
    ar = vlib.Area(rep, AREA, "RoutingTrace")
    res = vlib.run_tlc(AREA, "RoutingMC", "MC_quick.cfg" if quick else "MC_thorough.cfg", rep.workdir, workers=4 if quick else 10,
                       timeout=900 if quick else 3000, xmx="8g")
    vlib.tlc_ok(res, "RoutingMC")
    rep.add_tlc("RoutingMC", res, exhaustive=True)
    tables = res.cases
    if len(tables) < 100:
        raise vlib.ToolError("RoutingMC enumerated suspiciously few tables")
    paths = probe_paths()
    cases = []
    for t in tables:
        has_hg = '"hg": true' in json.dumps(t["table"])
        probes = [{"path": p, "method": m, "enc": False, "hx": hx} for p in paths for m in ("GET", "POST") for hx in ((False, True) if has_hg else (False,))]
        probes += [{"path": p, "method": "GET", "enc": True, "hx": False} for p in rnd.sample(paths, 6)]
        if quick:
            probes = rnd.sample(probes, 40)
        cases.append({"table": t["table"], "probes": probes})
    n_req = sum(len(c["probes"]) for c in cases)
    rep.cov["scripts_generated"] = len(tables)
    rep.cov["distinct_nontrivial"] = n_req
    rep.cov["exhaustive"] = not quick
    rep.cov["rule"] = ("RoutingMC enumerates every ordered selection of up to MaxTop distinct top-level services from a library of 16 scope/resource "
                       "templates (static, dynamic and tail patterns, multi-pattern resources, nested scopes, one or two guards at scope/resource/route level, per-level data "
                       "and defaults, duplicate prefixes) x app default on/off; each table is built as a real App and probed with every path of "
                       "up to 3 segments over {a, b, 1, a%2Fb, empty} x {GET, POST} (sampled in the quick tier); distinct = (table, request) pairs")
    rep.sample({"table": cases[0]["table"], "probes": cases[0]["probes"][:3]})
    tpath = ar.run_cases(cases, "all")
    ar.selftest(tpath, corrupt, "handler id + 1")
    rep.assumptions += ["'nearest enclosing default' is read as: a matched scope is committed, later siblings are not tried (DESIGN.md 4 C09)",
                        "guards are method guards and one header guard (same Guard mechanism for host and custom guards)"]


def replay(rep, path):
    obj = json.load(open(path))
    case = obj.get("case") or obj
    ar = vlib.Area(rep, AREA, "RoutingTrace")
    ar.run_cases([case], "replay")
    rep.cov["samples"].append({"table": case["table"]})
    rep.cov["distinct_nontrivial"] = 2
    rep.cov["states"] = max(rep.cov["states"], 1)
    rep.cov["transitions"] = max(rep.cov["transitions"], 1)
