"""C02 (see DESIGN.md section 4 C02): driver on top of areas.h1_common."""
from areas import h1_common as H

PID = "C02"


def run(rep):
    H.run_h1(rep, PID, ["MC_C02_quick.cfg", "MC_C02_expect.cfg"], ["MC_C02_thorough.cfg", "MC_C02_thorough_b.cfg", "MC_C02_expect.cfg"], [H.context_family],
             dict(allow_bad=0.1, one_byte=0.1, budget=0.3, faults=True), n_random=(300, 5000), max_scripts=(1500, 20000))


def replay(rep, path):
    H.replay_h1(rep, PID, path)
