"""C08 HTTP/2 responses under any flow-control schedule (spec/h2)."""
import json
import random

import vlib

AREA = "h2"
UNIT = 4096


def stream(chunks, method="GET", status=200, sized=False, policy="auto", **kw):
    s = {"method": method, "status": status, "chunks": chunks, "sized": sized, "policy": policy}
    s.update(kw)
    return s


def from_model(tc, k):
    streams = []
    granted = {g[0] for g in tc["grants"]}
    for i, b in enumerate(tc["bodies"]):
        chunks = [c * UNIT + (0 if c == 0 else (k % 3) - 1) for c in b]
        chunks = [max(c, 0) for c in chunks]
        pol = "step" if (i + 1) in granted else "auto"
        streams.append(stream(chunks, policy=pol, release_step=UNIT))
    return {"window": UNIT * (1 + k % 3), "conn_window": 1 << 20, "streams": streams, "origin": "H2Send"}


def directed(rnd, quick):
    cases = []
    bodies = [[100000], [1, 16383, 16384, 16385, 40000, 7], [0, 5, 0, 0, 70000, 0], [], [0], [16384] * 5, [1] * 50]
    wins = [1, 7, 100, 16383, 16384, 16385, 65535] if not quick else [1, 100, 16384, 65535]
    for w in wins:
        for b in bodies:
            if w <= 7 and sum(b) > 20000:
                b = [c // 20 for c in b]
            for pol in ("auto", "step"):
                cases.append({"window": w, "conn_window": 1 << 20, "streams": [stream(b, policy=pol, release_step=max(1, w // 2))]})
            # a sibling stream that is never read must not block or corrupt this one
            cases.append({"window": w, "conn_window": 4 << 20, "streams": [stream([w * 3 + 10], policy="never"), stream(b, policy="auto"), stream(b, sized=True, policy="step", release_step=max(1, w // 3))]})
            cases.append({"window": w, "conn_window": 4 << 20, "streams": [stream([w * 3 + 10], policy="reset"), stream(b, policy="auto")]})
    # a long always-ready body on a stream the client resets (or never reads) next to a normal one
    for w in (100, 16384, 65535):
        for pol in ("reset", "never"):
            cases.append({"window": w, "conn_window": 4 << 20, "streams": [stream([1024] * 2000, policy=pol), stream([5000, 5000], policy="auto")]})
    # head rules: HEAD, bodiless statuses, declared lengths, hop-by-hop headers, handler-set content-length
    for m, st in (("HEAD", 200), ("GET", 204), ("GET", 304), ("GET", 200)):
        for b in ([300], [0, 300, 0], []):
            for sized in (False, True):
                cases.append({"window": 65535, "conn_window": 1 << 20, "streams": [stream(b, method=m, status=st, sized=sized, hop_headers=True), stream([5], policy="auto")]})
                cases.append({"window": 100, "conn_window": 1 << 20, "streams": [stream(b, method=m, status=st, sized=sized, user_cl=not sized, pend=True)]})
    for declared, chunks in ((10, [4, 4]), (6, [4, 4]), (8, [4, 4])):
        cases.append({"window": 65535, "conn_window": 1 << 20, "streams": [stream(chunks, sized=True, declared=declared)]})
    cases.append({"window": 65535, "conn_window": 1 << 20, "streams": [stream([10, 10], end_err=True), stream([10, 10])]})
    return cases


def corrupt(ev):
    out = [dict(e) for e in ev]
    for e in out:
        if e.get("ev") == "Data" and e.get("n", 0) > 0:
            e["n"] = e["n"] + 1
            return out
    return None


def run(rep):
    quick = rep.tier == "quick"
    rnd = random.Random(rep.seed * 521 + 8)
    ar = vlib.Area(rep, AREA, "H2Trace")
    res = vlib.run_tlc(AREA, "H2Send", "MC_quick.cfg" if quick else "MC_thorough.cfg", rep.workdir, workers=6 if quick else 12,
                       timeout=900 if quick else 3000, xmx="10g")
    vlib.tlc_ok(res, "H2Send")
    rep.add_tlc("H2Send", res, exhaustive=True)
    if res.distinct < 10000:
        raise vlib.ToolError("H2Send explored suspiciously little")
    sc = res.cases
    # the same sender with a peer that may reset a stream at any time (ResetStopsPulling, Independent); no scripts from this run
    rres = vlib.run_tlc(AREA, "H2Send", "MC_reset.cfg", rep.workdir, workers=6, timeout=900, xmx="8g")
    vlib.tlc_ok(rres, "H2Send MC_reset.cfg")
    rep.add_tlc("H2Send/MC_reset.cfg", rres, exhaustive=True)
    rep.cov["scripts_generated"] = len(sc)
    cap = 300 if quick else 4000
    sc = rnd.sample(sc, cap) if len(sc) > cap else sc
    cases = [from_model(tc, k) for k, tc in enumerate(sc)] + directed(rnd, quick)
    rep.cov["distinct_nontrivial"] = len({json.dumps(c, sort_keys=True) for c in cases})
    rep.cov["rule"] = ("H2Send: two concurrent streams x body chunkings (empty chunks, chunks above the per-reservation cap and above every window) x "
                       "initial stream/connection windows x every order of window grants, explored by TLC (completed behaviours sampled for replay); "
                       "plus real window sizes 1..65535 against bodies up to 100000 bytes, a never-read or reset sibling stream, HEAD/204/304, "
                       "declared lengths, hop-by-hop headers. Every case runs the real h2 service against an h2 client. distinct = cases")
    for c in cases[:1] + cases[-2:]:
        rep.sample(c)
    tpath = ar.run_cases(cases, "all")
    ar.selftest(tpath, corrupt, "Data.n + 1")
    rep.assumptions += ["the h2 crate (both endpoints) is environment: its flow control is trusted",
                        "a stall is observed as: no frame within 30 s of virtual time although the client's stream window is open"]


def replay(rep, path):
    obj = json.load(open(path))
    case = obj.get("case") or obj
    ar = vlib.Area(rep, AREA, "H2Trace")
    ar.run_cases([case], "replay")
    rep.cov["samples"].append(case)
    rep.cov["distinct_nontrivial"] = 2
    rep.cov["states"] = max(rep.cov["states"], 1)
    rep.cov["transitions"] = max(rep.cov["transitions"], 1)
