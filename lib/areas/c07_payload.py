"""C07 request-body channel: exact bytes, truthful ending, no lost wake-ups."""
import json
import os
import re
import subprocess
import random

import vlib

AREA = "payload"


def random_cases(seed, runs, length):
    rnd = random.Random(seed)
    cases = []
    for r in range(runs):
        ops, nid = [], 1
        sender, reader = True, True
        sizes = [1, 2, 100, 1000, 8191, 16384, 32767, 32768, 32769, 40000, 65536]
        bias = rnd.choice(["feed", "poll", "even"])
        for _ in range(length):
            w = {"feed": [6, 3], "poll": [3, 6], "even": [4, 4]}[bias]
            o = rnd.choices(["FeedData", "Poll", "NeedRead", "Unread", "FeedEof", "SetError", "DropSender", "DropReader"],
                            weights=[w[0], w[1], 3, 1, 0.15, 0.1, 0.1, 0.05])[0]
            if o in ("FeedData", "FeedEof", "SetError", "DropSender", "NeedRead") and not sender:
                continue
            if o in ("Poll", "Unread", "DropReader") and not reader:
                continue
            op = {"op": o}
            if o in ("FeedData", "Unread"):
                op["id"] = nid % 250 + 1
                nid += 1
                op["n"] = rnd.choice(sizes) if o == "FeedData" else rnd.choice([1, 5, 100, 40000])
            if o == "SetError":
                op["e"] = rnd.choice(["overflow", "corrupt", "unknown_length"])
            if o == "DropSender":
                sender = False
            if o == "DropReader":
                reader = False
            ops.append(op)
        cases.append({"eof": rnd.random() < 0.05, "ops": ops})
    return cases


def corrupt(ev):
    out = [dict(e) for e in ev]
    parked = False
    for e in out:
        if e.get("ev") == "Reset":
            parked = False
        elif e.get("ev") == "Poll":
            parked = e.get("ret") == "pending"
        elif e.get("ev") == "FeedData" and parked and e.get("dr", 0) > 0:
            e["dr"] = 0   # pretend the parked reader was not woken
            return out
        elif e.get("dr", 0) > 0:
            parked = False
    return None


def corrupt_bytes(ev):
    out = [dict(e) for e in ev]
    for e in out:
        if e.get("ev") == "Poll" and e.get("ret") == "chunk":
            e["runs"] = [[e["runs"][0][0], e["runs"][0][1] + 1]]
            return out
    return None


def apalache(workdir, module_path, init, length, tag):
    out = os.path.join(workdir, "apalache-" + tag)
    os.makedirs(out, exist_ok=True)
    cmd = ["apalache-mc", "check", "--out-dir=" + out, "--cinit=ConstInit", "--init=" + init, "--inv=IndInv", "--length=%d" % length,
           os.path.basename(module_path)]
    try:
        p = subprocess.run(cmd, cwd=os.path.dirname(module_path), stdout=subprocess.PIPE, stderr=subprocess.STDOUT, text=True, timeout=1800)
    except subprocess.TimeoutExpired:
        raise vlib.ToolError("apalache timed out (%s)" % tag)
    m = re.search(r"The outcome is: (\w+)", p.stdout)
    return m.group(1) if m else "none(rc=%d)" % p.returncode


def inductive(rep):
    """Unbounded histories: Apalache shows IndInv of PayloadInd (the wake-up and truthful-ending clauses over an abstraction of
    PayloadMC) inductive; a mutant that does not store the reader's waker on Pending must be refuted (non-vacuity)."""
    src = os.path.join(vlib.SPEC, AREA, "PayloadInd.tla")
    base = apalache(rep.workdir, src, "Init", 0, "init")
    step = apalache(rep.workdir, src, "IndInit", 1, "step")
    mdir = os.path.join(rep.workdir, "apalache-mutant")
    os.makedirs(mdir, exist_ok=True)
    text = open(src).read()
    needle = "/\\ needRead' = TRUE /\\ task' = TRUE /\\ ioTask' = FALSE"
    if needle not in text:
        raise vlib.ToolError("PayloadInd: mutation point not found")
    mpath = os.path.join(mdir, "PayloadIndMut.tla")
    open(mpath, "w").write(text.replace(needle, "/\\ needRead' = TRUE /\\ task' = task /\\ ioTask' = FALSE").replace("MODULE PayloadInd ", "MODULE PayloadIndMut "))
    mut = apalache(rep.workdir, mpath, "IndInit", 1, "mutant-out")
    rep.cov["inductive_invariant"] = {"tool": "apalache-mc 0.58", "module": "spec/payload/PayloadInd.tla", "Init=>IndInv": base,
                                      "IndInv/\\Next=>IndInv'": step, "mutant_without_reader_waker": mut}
    if base != "NoError" or step != "NoError":
        raise vlib.ToolError("PayloadInd: IndInv is not inductive (init=%s step=%s)" % (base, step))
    if mut != "Error":
        raise vlib.ToolError("PayloadInd: the mutant was not refuted (%s): the invariant is vacuous" % mut)
    print("[apalache] PayloadInd: IndInv inductive (init %s, step %s); mutant refuted" % (base, step))


def run(rep):
    quick = rep.tier == "quick"
    ar = vlib.Area(rep, AREA, "PayloadTrace")
    cfgs = ["MC_quick.cfg"] if quick else ["MC_thorough.cfg", "MC_thorough_eof.cfg"]
    cases = []
    for cfg in cfgs:
        res = vlib.run_tlc(AREA, "PayloadMC", cfg, rep.workdir, workers=4 if quick else 10, timeout=900 if quick else 3000,
                           xmx="8g")
        vlib.tlc_ok(res, "PayloadMC " + cfg)
        rep.add_tlc("PayloadMC/" + cfg, res, exhaustive=True)
        if res.distinct < 5000:
            raise vlib.ToolError("PayloadMC explored suspiciously little")
        cases += res.cases
    rep.cov["distinct_nontrivial"] = len(cases)
    rep.cov["exhaustive"] = True
    rep.cov["rule"] = ("TLC enumerates every distinct reachable state of PayloadMC (Inner fields, handles alive, monitor state) to the "
                       "depth bound over the calls feed_data(1|LIM-1|LIM|LIM+1)/feed_eof/set_error/drop sender/need_read/poll/"
                       "unread_data/drop reader and prints the call history reaching it; each history is replayed on a real "
                       "h1::Payload pair with counting wakers (abstract sizes scaled so LIM = 32768); distinct = distinct histories")
    for c in cases[:1] + cases[len(cases) // 2:len(cases) // 2 + 2] + cases[-1:]:
        rep.sample(c)
    tpath = ar.run_cases(cases, "gen")
    rc = random_cases(rep.seed, 40 if quick else 400, 400 if quick else 3000)
    rep.sample({"random_case_first_ops": rc[0]["ops"][:10]})
    ar.run_cases(rc, "rand")
    ar.selftest(tpath, corrupt, "FeedData.dr := 0 while the reader is parked")
    ar.selftest(tpath, corrupt_bytes, "Poll chunk run length + 1")
    if not quick:
        inductive(rep)
    rep.assumptions += ["chunk contents are the chunk id repeated; the reader's data is run-length decoded by the harness",
                        "PayloadSender / PayloadStatus are reachable only through Payload::create (types not nameable outside the crate)"]


def replay(rep, path):
    obj = json.load(open(path))
    case = obj.get("case") or obj
    ar = vlib.Area(rep, AREA, "PayloadTrace")
    ar.run_cases([case], "replay")
    rep.cov["samples"].append(case)
    rep.cov["distinct_nontrivial"] = 2
    rep.cov["states"] = max(rep.cov["states"], 1)
    rep.cov["transitions"] = max(rep.cov["transitions"], 1)
