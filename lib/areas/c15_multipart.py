"""C15 multipart parsing: exact, segmentation-independent, terminating (spec/multipart)."""
import json
import random

import vlib

AREA = "multipart"
SYM = {"X": "x", "CR": "\r", "LF": "\n", "D": "-", "P": "P", "Q": "Q"}


def build(fields, boundary="PQ", cut=None, segs=None, preamble="", closing=True, cls=None):
    """fields: [{name, content, cl (None | int)}] -> case. `cut`: the body is truncated to this many bytes."""
    body = preamble
    lie = False
    for f in fields:
        body += "--%s\r\ncontent-disposition: form-data; name=\"%s\"\r\n" % (boundary, f["name"])
        if f.get("cl") is not None:
            body += "content-length: %d\r\n" % f["cl"]
            if f["cl"] != len(f["content"]):
                lie = True
        body += "\r\n" + f["content"] + "\r\n"
    if closing:
        body += "--%s--\r\n" % boundary
    complete = closing
    if cut is not None and not fields and cut >= len(body) - 2:
        cut = None              # "--B--" alone without CRLF: edge of the grammar, not generated
    if cut is not None and cut == len(body) - 1 and closing:
        cut = len(body) - 2     # a lone CR after the closing delimiter is neither complete nor clearly truncated: not generated
    if cut is not None and cut < len(body):
        # complete only if the cut removes nothing but the optional CRLF after the closing delimiter
        complete = closing and cut >= len(body) - 2
        body = body[:cut]
    return {"boundary": boundary, "body": body, "fields": [{"name": f["name"], "content": f["content"]} for f in fields],
            "segs": segs or [len(body) or 1], "complete": complete, "lie": lie, "cls": cls or ""}


def from_model(tc):
    """CASE of MpScan: one field with symbolic content; cut/segs are in symbols relative to the content start."""
    content = "".join(SYM[s] for s in tc["content"])
    base = build([{"name": "f1", "content": content}])
    off = base["body"].index("\r\n\r\n") + 4           # where the content starts
    # model stream = content + CRLF--PQ + CRLF ; real body continues the same way ("--" then CRLF after PQ)
    cut_sym = tc["cut"]
    total_sym = tc["total"]
    cut = None if cut_sym >= total_sym else off + cut_sym
    if cut is not None and cut_sym > len(tc["content"]) + 6:
        # the model's tail after the delimiter is CRLF, the real closing delimiter has "--" first
        cut = off + len(tc["content"]) + 6
    segs = [off] + list(tc["segs"])
    c = build([{"name": "f1", "content": content}], cut=cut, segs=segs, cls="model")
    return c


LOOKALIKES = ["", "x", "\r", "\n", "\r\n", "-", "--", "\r\n-", "\r\n--", "\r\n--P", "\r\n--Px", "\r--PQ"[:4], "\r--PQ", "a\r--PQ\r\nb", "\n--PQ--", "--PQ", "\r\n--Q", "a\r\n--PXb",
              "\r\r\n--P", "x\r", "x\r\n", "\r\n\r\n", "--PQ--", "\n--PQ", "\r\n -PQ", "PQ", "\r\n--pq", "xx\r\n--", "\r\n--\r\n--", "\x00\xff\r"]


def directed(rnd, quick):
    cases = []
    conts = LOOKALIKES if not quick else rnd.sample(LOOKALIKES, 12)
    for c1 in conts:
        for c2 in ("tail", "", "\r\n--"):
            fields = [{"name": "a", "content": c1}, {"name": "b", "content": c2}]
            base = build(fields)
            n = len(base["body"])
            variants = [[n], [1] * n]
            start = base["body"].index("\r\n\r\n") + 4
            cuts = range(start, min(n, start + len(c1) + 12))
            for c in cuts:
                variants.append([c, n - c])
            variants.append([rnd.randint(1, 7) for _ in range(n)])
            if quick:
                variants = variants[:2] + rnd.sample(variants[2:], min(4, len(variants) - 2))
            for segs in variants:
                cases.append(build(fields, segs=segs, cls="lookalike"))
            # every truncation point of the same body (whole and in 1-byte chunks)
            tr = range(0, n) if not quick else rnd.sample(range(0, n), 6)
            for t in tr:
                cases.append(build(fields, cut=t, segs=[t] if t else [1], cls="truncated"))
                if not quick:
                    cases.append(build(fields, cut=t, segs=[1] * max(t, 1), cls="truncated"))
    # per-field Content-Length: truthful, too small, too large (RFC 7578 4.8: must be ignored)
    for cl_delta in (0, -3, 20):
        for segs_kind in ("whole", "bytes"):
            fields = [{"name": "a", "content": "hello", "cl": 5 + cl_delta}, {"name": "b", "content": "world"}, {"name": "c", "content": "!"}]
            base = build(fields)
            cases.append(build(fields, segs=[len(base["body"])] if segs_kind == "whole" else [1] * len(base["body"]), cls="part-content-length"))
    # a truthful per-field Content-Length and every truncation point of that body (whole and byte by byte)
    fields = [{"name": "a", "content": "hello", "cl": 5}, {"name": "b", "content": "world", "cl": 5}]
    n = len(build(fields)["body"])
    for t in (range(0, n) if not quick else sorted(set(rnd.sample(range(0, n), 10)) | {n - 12, n - 10, n - 9, n - 8})):
        if t < 0:
            continue
        cases.append(build(fields, cut=t, segs=[t] if t else [1], cls="truncated-with-part-length"))
        cases.append(build(fields, cut=t, segs=[1] * max(t, 1), cls="truncated-with-part-length"))
    # no fields at all, preamble, no closing delimiter
    cases.append(build([], cls="empty"))
    cases.append(build([{"name": "a", "content": "x"}], preamble="junk before\r\n", cls="preamble"))
    cases.append(build([{"name": "a", "content": "x"}], closing=False, cls="no-closing-delimiter"))
    return cases


def limit_cases(quick):
    """C15 'the parser buffers no more than its configured limit': bodies 64 times the limit - an endless header line, an endless
    preamble, and long contents (plain and full of CR / LF / dashes) - fed in chunks smaller and larger than the limit."""
    cases = []
    for limit in ((1024,) if quick else (1024, 8192)):
        big = 64 * limit
        for chunk in (limit // 4, limit * 4):
            def segs(n):
                return [chunk] * (n // chunk + 1)
            # (a) a part whose header block never ends; (b) a preamble line that never ends: both must end in an error
            for body in ("--PQ\r\nx-h: " + "a" * big, "p" * big):
                cases.append({"boundary": "PQ", "body": body, "fields": [], "segs": segs(len(body)), "complete": False, "lie": False,
                              "cls": "buffer-limit", "limit": limit})
            # (c) long contents are streamed through, whatever they look like
            for unit in ("c", "\r\n-", "\r"):
                content = (unit * (big // len(unit) + 1))[:big]
                c = build([{"name": "f", "content": content}], cls="buffer-limit")
                c["segs"] = segs(len(c["body"]))
                c["limit"] = limit
                cases.append(c)
    return cases


def burst_cases(rnd, quick):
    """Many small chunks that are all ready in one poll (more than the parser takes per poll), ending inside every piece of the grammar."""
    cases = []
    fields = [{"name": "alpha", "content": "x" * 40 + "\r\n--P" + "y" * 30}, {"name": "beta", "content": "\r\n-" * 12}, {"name": "c", "content": ""}]
    base = build(fields)
    n = len(base["body"])
    for seg in (1, 2, 3):
        for burst in (16, 17, 40, 1000):
            c = build(fields, segs=[seg] * (n // seg + 1), cls="burst")
            c["burst"] = burst
            cases.append(c)
    for t in (rnd.sample(range(1, n), 6) if quick else range(1, n, 3)):
        c = build(fields, cut=t, segs=[1] * t, cls="burst-truncated")
        c["burst"] = 64
        cases.append(c)
    return cases


def random_cases(rnd, n):
    cases = []
    alpha = ["x", "y", "\r", "\n", "-", "P", "Q", "\r\n", "--", "\r\n--", "\r\n--P"]
    for _ in range(n):
        fields = []
        for k in range(rnd.randint(0, 4)):
            content = "".join(rnd.choice(alpha) for _ in range(rnd.randint(0, 12)))
            while "\r\n--PQ" in content:
                content = content.replace("\r\n--PQ", "\r\n--Px")
            fields.append({"name": "f%d" % k, "content": content})
        base = build(fields)
        n_b = len(base["body"])
        cut = rnd.randint(0, n_b) if rnd.random() < 0.3 else None
        ln = n_b if cut is None else cut
        segs, left = [], ln
        while left > 0:
            s = rnd.choice([1, 1, 2, 3, 5, 9, 40, left])
            segs.append(min(s, left))
            left -= s
        cases.append(build(fields, cut=cut, segs=segs or [1], cls="random"))
    return cases


def corrupt(ev):
    out = [dict(e) for e in ev]
    for e in out:
        if e.get("ev") == "FieldEnd":
            e["n"] = e["n"] + 4
            return out
    return None


def run(rep):
    quick = rep.tier == "quick"
    rnd = random.Random(rep.seed * 6151 + 15)
    ar = vlib.Area(rep, AREA, "MpTrace")
    sc = []
    for cfg in (["MC_quick.cfg"] if quick else ["MC_thorough.cfg", "MC_len5.cfg"]):
        res = vlib.run_tlc(AREA, "MpScan", cfg, rep.workdir, workers=6 if quick else 12, timeout=900 if quick else 3000, xmx="8g")
        vlib.tlc_ok(res, "MpScan " + cfg)
        rep.add_tlc("MpScan/" + cfg, res, exhaustive=True)
        if res.distinct < 5000:
            raise vlib.ToolError("MpScan explored suspiciously little")
        sc += res.cases
    rep.cov["scripts_generated"] = len(sc)
    cap = 3000 if quick else 60000
    sc = rnd.sample(sc, cap) if len(sc) > cap else sc
    cases = [from_model(tc) for tc in sc]
    extra = directed(rnd, quick) + random_cases(rnd, 300 if quick else 6000) + limit_cases(quick) + burst_cases(rnd, quick)
    rep.cov["distinct_nontrivial"] = len({c["body"] + "|" + json.dumps(c["segs"]) for c in cases + extra})
    rep.cov["rule"] = ("(a) MpScan: all field contents up to the length bound over {x, CR, LF, '-', boundary letters} x every segmentation x every "
                       "truncation point, enumerated by TLC and concretised one byte per symbol; (b) look-alike contents in 2-field bodies cut "
                       "at every offset around the delimiter and truncated at every offset; per-field Content-Length truthful/too small/too "
                       "large; (c) random field lists and cuts; (d) bodies 64 times a configured buffer limit (endless header line / preamble, long "
                       "contents) with the parser's heap high-water mark against the limit. distinct = distinct (body, segmentation) pairs")
    for c in cases[:2] + extra[:1]:
        rep.sample({"body": c["body"], "segs": c["segs"][:12], "complete": c["complete"]})
    tpath = ar.run_cases(cases + extra, "all")
    ar.selftest(tpath, corrupt, "FieldEnd.n + 4")
    rep.cov["model_scripts_replayed"] = len(cases)
    rep.assumptions += ["field headers are a fixed Content-Disposition line (plus optional Content-Length); header parsing itself is sampled, not modelled",
                        "a hang is observed as: end of stream delivered, consumer pending, no wake-up outstanding"]


def replay(rep, path):
    obj = json.load(open(path))
    case = obj.get("case") or obj
    ar = vlib.Area(rep, AREA, "MpTrace")
    ar.run_cases([case], "replay")
    rep.cov["samples"].append({"body": case["body"], "segs": case["segs"][:20]})
    rep.cov["distinct_nontrivial"] = 2
    rep.cov["states"] = max(rep.cov["states"], 1)
    rep.cov["transitions"] = max(rep.cov["transitions"], 1)
