#!/bin/bash
# Runs the quick tier of the given checks with several seeds on the current tree (false-alarm hunting).
cd "$(dirname "$0")/.."
for seed in ${SEEDS:-2 3 4}; do
  for p in "$@"; do
    VERIF_SEED=$seed ./check $p --tier quick > out/sweep-$p-$seed.log 2>&1; rc=$?
    echo "$p seed=$seed rc=$rc"
    grep -A1 -E "^(VIOLATION|TOOL-ERROR)" out/sweep-$p-$seed.log | cut -c1-300
  done
done
