"""Shared machinery of the /verif checks (stdlib only).

Pipeline per property (DESIGN.md section 1):
  MC   : TLC model-checks the area's specification (Impl => Ref in bounds), counts states
  GEN  : TLC emits cases/scripts (PrintT <<"CASE", json>>) from the same specification
  RUN  : the Rust harness `conform` runs cases / seeded random drivers against the real code
         built from /repo's working tree and writes NDJSON traces
  VAL  : TLC validates the traces against the property-level monitor (Ref); every rejection is
         printed as <<"REJECT", run, sig, l, ...>>
  CLS  : rejections are matched against known_findings.json -> KNOWN-FINDING / VIOLATION
"""
import fcntl
import hashlib
import json
import os
import re
import shutil
import subprocess
import sys
import time

ROOT = os.path.dirname(os.path.dirname(os.path.abspath(__file__)))
SPEC = os.path.join(ROOT, "spec")
HARNESS = os.path.join(ROOT, "harness")
OUT = os.path.join(ROOT, "out")
EVID = os.path.join(ROOT, "evidence")
JAR = "/opt/veriftools/tla/tla2tools.jar:/opt/veriftools/tla/CommunityModules-deps.jar"


class ToolError(Exception):
    pass


def log(*a):
    print(*a, file=sys.stderr, flush=True)


# ------------------------------------------------------------------------------------------
# TLC
# ------------------------------------------------------------------------------------------
_STR = r'"((?:[^"\\]|\\.)*)"'
# not anchored: TLC's progress reporter writes from another thread and its text can land on the same line
import itertools
_RUN_SEQ = itertools.count()
RE_TUPLE = re.compile(r'<<\s*"(CASE|REJECT|INFO|STAT)"\s*,\s*(' + _STR + r')\s*>>')


def _tlc_unescape(s):
    try:
        return json.loads('"' + s + '"')
    except Exception:
        return s.replace('\\"', '"').replace("\\\\", "\\")


class TlcResult:
    def __init__(self):
        self.generated = 0
        self.distinct = 0
        self.depth = 0
        self.cases = []      # parsed JSON objects of <<"CASE", "...">>
        self.rejects = []    # parsed JSON objects of <<"REJECT", "...">>
        self.infos = []
        self.errors = []     # invariant / property violations / runtime errors
        self.coverage = {}   # action -> (distinct, total)
        self.wall = 0.0
        self.timed_out = False
        self.raw_tail = ""
        self.rc = None
        self.simulated_traces = 0


def run_tlc(area, module, cfg, workdir, *, workers=4, timeout=600, env=None, deque=False,
            simulate=None, depth=None, seed=None, coverage=False, xmx="6g", xss="512m",
            keep_lines=None, extra=None):
    """Runs TLC in spec/<area>. Returns TlcResult. Raises ToolError for tool-level failures."""
    sdir = os.path.join(SPEC, area)
    meta = os.path.join(workdir, "tlc-%s-%s-%d%04d" % (module, os.path.basename(cfg), int(time.time() * 1000) % 100000, next(_RUN_SEQ)))
    os.makedirs(meta, exist_ok=True)
    jopts = ["-XX:+UseParallelGC", "-Xmx" + xmx, "-Xss" + xss,
             "-DTLA-Library=" + os.path.join(SPEC, "common")]
    if deque:
        jopts.append("-Dtlc2.tool.queue.IStateQueue=StateDeque")
    cmd = ["java"] + jopts + ["-cp", JAR, "tlc2.TLC", "-workers", str(workers), "-config", cfg,
                               "-metadir", meta, "-cleanup", "-noGenerateSpecTE"]
    if coverage:
        cmd += ["-coverage", "1"]
    if simulate is not None:
        cmd += ["-simulate", "num=%d" % simulate]
        if depth:
            cmd += ["-depth", str(depth)]
    if seed is not None:
        cmd += ["-seed", str(seed)]
    if extra:
        cmd += extra
    cmd.append(module + ".tla")
    e = dict(os.environ)
    e.pop("JAVA_TOOL_OPTIONS", None)
    if env:
        e.update({k: str(v) for k, v in env.items()})
    t0 = time.time()
    res = TlcResult()
    # one log per run: trace validation runs several TLC processes of the same module and config side by side
    logf = os.path.join(workdir, "tlc-%s-%s-%s.log" % (module, os.path.basename(cfg), os.path.basename(meta).rsplit("-", 1)[-1]))
    with open(logf, "w") as lf:
        try:
            p = subprocess.run(cmd, cwd=sdir, env=e, stdout=lf, stderr=subprocess.STDOUT, timeout=timeout)
            res.rc = p.returncode
        except subprocess.TimeoutExpired:
            res.timed_out = True
    res.wall = time.time() - t0
    tail = []
    with open(logf, errors="replace") as f:
        for line in f:
            line = line.rstrip("\n")
            found = False
            for m in RE_TUPLE.finditer(line):
                found = True
                kind = m.group(1)
                txt = _tlc_unescape(m.group(3))
                try:
                    val = json.loads(txt)
                except Exception:
                    val = txt
                    if kind in ("REJECT", "CASE"):
                        res.errors.append("unparsable %s record: %s" % (kind, line[:200]))
                if kind == "CASE":
                    res.cases.append(val)
                elif kind == "REJECT":
                    res.rejects.append(val)
                else:
                    res.infos.append(val)
            if found:
                line = RE_TUPLE.sub("", line)
                if not line.strip():
                    continue
            tail.append(line)
            if len(tail) > 400:
                tail = tail[-300:]
            m = re.search(r"(\d+) states generated, (\d+) distinct states found", line)
            if m:
                res.generated, res.distinct = int(m.group(1)), int(m.group(2))
            m = re.search(r"depth of the complete state graph search is (\d+)", line)
            if m:
                res.depth = int(m.group(1))
            m = re.search(r"The number of states generated: (\d+)", line)
            if m:
                res.generated = int(m.group(1))
            m = re.search(r"Simulation.*?(\d+) traces generated|generated (\d+) traces", line)
            if m:
                res.simulated_traces = int(m.group(1) or m.group(2))
            if line.startswith("Error:") or "is violated" in line or "Exception" in line:
                res.errors.append(line.strip())
            m = re.match(r"^<(\w+) line \d+, col \d+ to line \d+, col \d+ of module \w+>: (\d+):(\d+)", line)
            if m:
                res.coverage[m.group(1)] = (int(m.group(2)), int(m.group(3)))
    res.raw_tail = "\n".join(tail[-60:])
    shutil.rmtree(meta, ignore_errors=True)
    return res


def tlc_ok(res, what):
    """Tool-level sanity of a TLC run that is expected to finish without errors."""
    if res.timed_out:
        raise ToolError("TLC timed out: " + what)
    if res.errors or res.rc not in (0,):
        raise ToolError("TLC failed (%s): rc=%s\n%s" % (what, res.rc, res.raw_tail))


# ------------------------------------------------------------------------------------------
# harness
# ------------------------------------------------------------------------------------------
def build_harness(workdir):
    """Builds harness/ against /repo's current working tree (cargo tracks the path deps)."""
    os.makedirs(os.path.join(HARNESS, "target"), exist_ok=True)
    lock = open(os.path.join(HARNESS, "target", ".verif-build.lock"), "w")
    fcntl.flock(lock, fcntl.LOCK_EX)
    try:
        t0 = time.time()
        e = dict(os.environ, CARGO_NET_OFFLINE="true")
        p = subprocess.run(["cargo", "build", "--release", "--offline", "--bin", "conform"], cwd=HARNESS, env=e,
                           stdout=subprocess.PIPE, stderr=subprocess.STDOUT, text=True)
        if p.returncode != 0:
            raise ToolError("harness build failed:\n" + p.stdout[-6000:])
        log("[build] harness built in %.1fs" % (time.time() - t0))
    finally:
        fcntl.flock(lock, fcntl.LOCK_UN)
        lock.close()
    return os.path.join(HARNESS, "target", "release", "conform")


def run_conform(binpath, args, *, timeout=900, stdin=None):
    t0 = time.time()
    try:
        p = subprocess.run([binpath] + [str(a) for a in args], stdout=subprocess.PIPE, stderr=subprocess.PIPE,
                           text=True, timeout=timeout, input=stdin)
    except subprocess.TimeoutExpired:
        raise ToolError("conform timed out: %s" % (args,))
    if p.returncode != 0:
        raise ToolError("conform %s failed rc=%d\n%s" % (args, p.returncode, p.stderr[-4000:]))
    log("[conform] %s  %.1fs" % (" ".join(str(a) for a in args)[:160], time.time() - t0))
    return p.stdout


def write_ndjson(path, items):
    with open(path, "w") as f:
        for it in items:
            f.write(json.dumps(it, separators=(",", ":")) + "\n")


def read_ndjson(path):
    out = []
    with open(path) as f:
        for line in f:
            line = line.strip()
            if line:
                out.append(json.loads(line))
    return out


# ------------------------------------------------------------------------------------------
# known findings, reporting, evidence
# ------------------------------------------------------------------------------------------
def load_known():
    p = os.path.join(ROOT, "known_findings.json")
    if not os.path.exists(p):
        return {"findings": [], "fixed": []}
    return json.load(open(p))


class Report:
    """Collects rejections; decides exit code; writes replay files and the evidence file."""

    def __init__(self, pid, tier, seed, workdir):
        self.pid, self.tier, self.seed, self.workdir = pid, tier, seed, workdir
        self.t0 = time.time()
        self.known = [k for k in load_known().get("findings", []) if k["property"] == pid]
        self.known_hits = {}
        self.violations = []
        self.cov = {"states": 0, "transitions": 0, "traces_validated_against_impl": 0, "samples": [],
                    "evaluations": 0, "distinct_nontrivial": 0, "rule": "", "exhaustive": False,
                    "tlc_runs": [], "binding_selftest": []}
        self.assumptions = []
        self.drift = []

    def add_tlc(self, name, res, exhaustive=None):
        self.cov["states"] += res.distinct
        self.cov["transitions"] += res.generated
        r = {"run": name, "distinct_states": res.distinct, "states_generated": res.generated, "depth": res.depth,
             "wall_s": round(res.wall, 1)}
        if exhaustive is not None:
            r["exhaustive"] = exhaustive
        if res.coverage:
            r["actions_never_taken"] = sorted(a for a, (d, t) in res.coverage.items() if t == 0)
        self.cov["tlc_runs"].append(r)

    def sample(self, x, cap=6):
        if len(self.cov["samples"]) < cap:
            self.cov["samples"].append(x)

    def reject(self, sig, what, replay_obj):
        """One rejection of an observed execution by the Ref monitor."""
        for k in self.known:
            if k["signature"] == sig:
                self.known_hits.setdefault(sig, [k, 0])[1] += 1
                return "known"
        h = hashlib.sha1(json.dumps(replay_obj, sort_keys=True).encode()).hexdigest()[:10]
        rdir = os.path.join(OUT, "replay")
        os.makedirs(rdir, exist_ok=True)
        path = os.path.join(rdir, "%s-%s.json" % (self.pid, h))
        with open(path, "w") as f:
            json.dump(replay_obj, f)
        self.violations.append((sig, what, path))
        return "violation"

    def finish(self, level="model_checking"):
        for sig, (k, n) in sorted(self.known_hits.items()):
            print("KNOWN-FINDING: property=%s %s [%s] (%d occurrence(s) this run)" % (self.pid, k["what"], sig, n))
        seen = set()
        for sig, what, path in self.violations:
            if sig in seen:
                continue
            seen.add(sig)
            print("VIOLATION property=%s replay=%s" % (self.pid, path))
            print("  signature: %s  %s" % (sig, what))
        for d in self.drift[:10]:
            log("DRIFT: " + d)
        ev = {"property_id": self.pid, "tier": self.tier, "seed": self.seed, "level": level, "coverage": self.cov,
              "assumptions": self.assumptions, "wall_s": round(time.time() - self.t0, 1),
              "violations": len(seen), "known_findings_seen": sorted(self.known_hits.keys()),
              "drift": self.drift[:20]}
        os.makedirs(EVID, exist_ok=True)
        tmp = os.path.join(EVID, ".%s.%d.tmp" % (self.pid, os.getpid()))
        with open(tmp, "w") as f:
            json.dump(ev, f, indent=1)
        os.replace(tmp, os.path.join(EVID, self.pid + ".json"))
        return 1 if self.violations else 0


def _split_trace(trace_path, shards, workdir):
    """Splits an NDJSON trace at Reset boundaries into `shards` files of similar size."""
    size = os.path.getsize(trace_path)
    target = size // shards + 1
    paths, cur, written = [], None, 0
    with open(trace_path) as f:
        for line in f:
            if cur is None or (written >= target and line.startswith('{"ev":"Reset"')):
                if cur:
                    cur.close()
                pth = os.path.join(workdir, "shard-%d-%s" % (len(paths), os.path.basename(trace_path)))
                paths.append(pth)
                cur = open(pth, "w")
                written = 0
            cur.write(line)
            written += len(line)
    if cur:
        cur.close()
    return paths


def validate_traces(rep, area, module, cfg, trace_path, workdir, cases_by_run=None, timeout=900, xmx="3g", shards=None):
    """Runs the Ref monitor (TLC, trace mode) over an NDJSON trace file holding many runs separated
    by Reset events. Every REJECT is handed to rep.reject with the run's case as replay object.
    Large traces are split at run boundaries and validated by several JVMs in parallel."""
    import concurrent.futures as cf
    size = os.path.getsize(trace_path)
    if shards is None:
        shards = max(1, min(8, size // 4_000_000))
    paths = _split_trace(trace_path, shards, workdir) if shards > 1 else [trace_path]

    def one(pth):
        return run_tlc(area, module, cfg, workdir, workers=1, timeout=timeout, env={"TRACE": pth}, deque=True, xmx=xmx)

    with cf.ThreadPoolExecutor(max_workers=len(paths)) as ex:
        results = list(ex.map(one, paths))
    n_events = 0
    rejects = []
    for res in results:
        if res.timed_out:
            raise ToolError("trace validation timed out")
        done = [i for i in res.infos if isinstance(i, dict) and i.get("k") == "done"]
        if res.rc != 0 or res.errors or not done:
            raise ToolError("trace validation failed to run to the end: rc=%s\n%s" % (res.rc, res.raw_tail))
        n_events += done[0].get("events", 0)
        rejects += res.rejects
    for r in rejects:
        run = r.get("run")
        case = cases_by_run.get(run) if cases_by_run else None
        rep.reject(r.get("sig", "?"), "clause=%s at event %s: %s" % (r.get("clause"), r.get("l"), json.dumps(r.get("ev"))[:300]),
                   {"area": area, "run": run, "case": case, "reject": r})
    if shards > 1:
        for pth in paths:
            try:
                os.remove(pth)
            except OSError:
                pass
    return results[0], n_events


class Area:
    """Common replay-and-validate plumbing of one specification area."""

    def __init__(self, rep, area, trace_module, trace_cfg="Trace.cfg"):
        self.rep, self.area, self.trace_module, self.trace_cfg = rep, area, trace_module, trace_cfg
        self.bin = None
        self.n = 0

    def build(self):
        if not self.bin:
            self.bin = build_harness(self.rep.workdir)
        return self.bin

    def run_cases(self, cases, tag, extra_args=(), timeout=900, count=True, rep=None):
        """cases -> conform replay -> trace -> TLC validation against the Ref monitor."""
        rep = rep or self.rep
        wd = self.rep.workdir
        self.n += 1
        cpath = os.path.join(wd, "cases-%s-%d.ndjson" % (tag, self.n))
        tpath = os.path.join(wd, "trace-%s-%d.ndjson" % (tag, self.n))
        write_ndjson(cpath, cases)
        run_conform(self.build(), [self.area, "replay", cpath, tpath] + list(extra_args), timeout=timeout)
        by_run = {i + 1: c for i, c in enumerate(cases)}
        _, n_events = validate_traces(rep, self.area, self.trace_module, self.trace_cfg, tpath, wd, by_run, timeout=timeout)
        if count:
            rep.cov["traces_validated_against_impl"] += len(cases)
            rep.cov["evaluations"] += n_events
        return tpath

    def selftest(self, tpath, corrupt, what, limit=400000):
        """Binding self-test (DESIGN.md 2.6): a recorded trace with one corrupted observation must be rejected."""
        # a prefix of the trace is enough as a rule; if it holds nothing the corruption applies to, the next stretch is tried
        bad = None
        with open(tpath) as f:
            while bad is None:
                ev = []
                for line in f:
                    ev.append(json.loads(line))
                    if len(ev) >= limit:
                        break
                if not ev:
                    break
                # a stretch starts inside a run: drop what precedes its first Reset (the first stretch starts with one)
                first = next((i for i, e in enumerate(ev) if e.get("ev") == "Reset"), None)
                if first is None:
                    continue
                ev = ev[first:]
                bad = corrupt(ev)
        if bad is None:
            raise ToolError("binding self-test: nothing to corrupt (%s)" % what)
        # keep only the run that contains the corrupted event
        k = next((i for i in range(min(len(ev), len(bad))) if ev[i] != bad[i]), None)
        if k is not None:
            a = max(i for i in range(k + 1) if bad[i].get("ev") == "Reset")
            b = next((i for i in range(k + 1, len(bad)) if bad[i].get("ev") == "Reset"), len(bad))
            bad = bad[a:b]
        bpath = os.path.join(self.rep.workdir, "trace-corrupt.ndjson")
        write_ndjson(bpath, bad)
        probe = Report(self.rep.pid, self.rep.tier, self.rep.seed, self.rep.workdir)
        probe.known = []
        validate_traces(probe, self.area, self.trace_module, self.trace_cfg, bpath, self.rep.workdir, None, shards=1)
        if not probe.violations:
            raise ToolError("binding self-test failed: corrupted trace (%s) was accepted" % what)
        self.rep.cov["binding_selftest"].append({"corrupted": what, "rejected": True, "sig": probe.violations[0][0]})
