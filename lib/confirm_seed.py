#!/usr/bin/env python3
"""Confirms seeded changes in a scratch clone of /repo (never in /repo itself):
   the demo passes on the unchanged tree, fails with the patch, and the repository's own suite still passes with the patch.
   usage: lib/confirm_seed.py <scratch-dir> <seed ids...>        (writes seeded/<id>/meta.json["confirmed"])"""
import json
import os
import re
import subprocess
import sys
import time

ROOT = os.path.dirname(os.path.dirname(os.path.abspath(__file__)))
SUITE = ("cargo nextest run --workspace --no-fail-fast --tool-config-file pb:/w/lib/nextest.toml --profile pb --test-threads 8 --offline")


def sh(cmd, cwd, env=None, timeout=7200):
    """Returns (rc, output); a command that does not finish in time is killed with its process group and reported as rc 124."""
    e = dict(os.environ)
    e.update(env or {})
    p = subprocess.Popen(cmd, shell=True, cwd=cwd, env=e, stdout=subprocess.PIPE, stderr=subprocess.STDOUT, text=True, start_new_session=True)
    try:
        out, _ = p.communicate(timeout=timeout)
        return p.returncode, out
    except subprocess.TimeoutExpired:
        import signal
        os.killpg(p.pid, signal.SIGKILL)
        out, _ = p.communicate()
        return 124, (out or "") + "\n[timed out after %ds]" % timeout


def main():
    scratch = os.path.abspath(sys.argv[1])
    seeds = sys.argv[2:]
    wt = os.path.join(scratch, "wt")
    env = {"CARGO_TARGET_DIR": os.path.join(scratch, "target"), "CARGO_NET_OFFLINE": "true", "CARGO_BUILD_JOBS": os.environ.get("JOBS", "8")}
    if not os.path.isdir(wt):
        os.makedirs(scratch, exist_ok=True)
        rc, out = sh("git clone -q /repo %s" % wt, scratch)
        assert rc == 0, out
    for s in seeds:
        d = os.path.join(ROOT, "seeded", s)
        meta = json.load(open(os.path.join(d, "meta.json")))
        txt = open(os.path.join(d, "demo.txt")).read()
        m = re.search(r"([a-z][a-z-]+)/tests/(seed_c\d+_\d+)\.rs", txt)
        if not m:
            print("SEED %s: cannot find the demo destination in demo.txt" % s)
            continue
        crate, tname = m.group(1), m.group(2)
        t0 = time.time()
        sh("git fetch -q origin && git checkout -q --detach origin/main && git checkout -q -- . && git clean -fdq", wt)
        head = sh("git rev-parse --short HEAD", wt)[1].strip()
        dest = os.path.join(wt, crate, "tests", tname + ".rs")
        sh("mkdir -p %s && cp %s %s" % (os.path.dirname(dest), os.path.join(d, "demo.rs"), dest), wt)
        demo_cmd = "cargo test -p %s --offline --test %s" % (crate, tname)
        rc0, out0 = sh(demo_cmd, wt, env, timeout=1800)
        rcp, outp = sh("patch -p1 -s < %s" % os.path.join(d, "patch.diff"), wt)
        if rcp != 0:
            print("SEED %s: patch does not apply to %s: %s" % (s, head, outp[-300:]))
            continue
        rc1, out1 = sh(demo_cmd, wt, env, timeout=900)      # a demo that hangs with the change counts as failing
        rc2, out2 = sh(SUITE + " -E 'not binary(%s)'" % tname, wt, env)
        summ = [l for l in out2.splitlines() if "Summary" in l or "tests run" in l]
        failed = sorted(set(re.findall(r"^\s+(?:FAIL|TIMEOUT|SIGTERM|SIGKILL|TERMINATING)\s+\[[^\]]*\]\s+(?:\([^)]*\)\s+)?(\S+ \S+)", out2, re.M)))
        still = []
        for f in failed:
            binid, test = f.split(" ", 1)
            ok = False
            for _ in range(2):
                r, _o = sh("cargo nextest run --offline -E 'binary_id(%s) & test(=%s)'" % (binid, test), wt, env, timeout=1200)
                if r == 0:
                    ok = True
                    break
            if not ok:
                still.append(f)
        conf = {"tree": head, "demo_unpatched": "pass" if rc0 == 0 else "FAIL", "demo_patched": ("fail (hangs: killed after 900 s)" if rc1 == 124 else "fail") if rc1 != 0 else "PASS",
                "suite_patched": (summ[-1].strip() if summ else "no summary (rc=%d)" % rc2),
                "suite_failures_first_run": failed, "suite_failures_after_rerun_alone": still,
                "what_i_ran": ["scratch clone of /repo at %s outside /repo and /verif" % head, demo_cmd + "   (before and after `patch -p1 < patch.diff`)",
                               SUITE + " -E 'not binary(%s)'   (with the patch applied; failures re-run alone up to twice)" % tname],
                "ok": rc0 == 0 and rc1 != 0 and not still and bool(summ)}
        meta["confirmed"] = conf
        json.dump(meta, open(os.path.join(d, "meta.json"), "w"), indent=2)
        print("SEED %s: demo unpatched=%s patched=%s suite=%s failed_first=%d still_failing=%s ok=%s  %ds" % (
            s, conf["demo_unpatched"], conf["demo_patched"], conf["suite_patched"], len(failed), still, conf["ok"], time.time() - t0), flush=True)
        if rc0 != 0:
            print("   unpatched demo output tail: " + out0[-600:].replace("\n", " | "))
    sh("git checkout -q -- . && git clean -fdq", wt)


if __name__ == "__main__":
    main()
