"""Concretiser and random drivers for the HTTP/1 connection area (C01-C06).

A *case* (what `conform h1 replay` executes) is built from abstract request descriptions and
handler programs; the ground truth handed to the TLA+ monitor (`gt`, `pf`, `rej`) is derived here from
the generator's own description of what it sent - never from what actix parsed.
"""
import random

MASK = 0x3FFFFFFF


def fnv(data, h=2166136261):
    for b in data:
        h ^= b
        h = (h * 16777619) & 0xFFFFFFFF
    return h


def req_pat(i, k):
    return (i * 37 + k * 7 + (k >> 8)) % 251


def hdr_hash(hdrs):
    """order-independent digest of a header list (names lower-case)"""
    s = 0
    for n, v in hdrs:
        s = (s + (fnv((n.lower() + ":" + v.strip() + "\n").encode("latin-1")) & MASK)) & MASK
    return s


def build_request(i, m="GET", ver=11, conn="-", expect=False, framing=None, extra=None, target=None, head_pad=0):
    """Returns (parts, gt, expect_entry). framing: {"k": none|cl|chunked|<bad class>, "n": body bytes, "chunks": [...], "ext": bool}"""
    framing = framing or {"k": "none"}
    k = framing["k"]
    target = target or "/r%d" % i
    hdrs = []
    if ver == 11:
        hdrs.append(("host", "t"))
    if conn != "-":
        # header values are case-insensitive tokens: the text on the wire varies with the request number, the meaning does not
        hdrs.append(("connection", conn if i % 3 else (conn.capitalize() if i % 2 else conn.upper())))
    if expect:
        hdrs.append(("expect", "100-continue"))
    for h in (extra or []):
        hdrs.append(tuple(h))
    if head_pad:
        hdrs.append(("x-pad", "p" * head_pad))
    n = framing.get("n", 0)
    body_parts = []
    chunked = False
    bad = None          # malformed-framing class
    bad_in_body = None  # offset within body part where the bad byte sits (chunk syntax errors)
    if k == "none":
        n = 0
    elif k == "cl":
        # optional whitespace around a field value is not part of it (RFC 7230 3.2.4)
        hdrs.append(("content-length", ("  %d \t" % n) if framing.get("ows") else str(n)))
        if n:
            body_parts.append({"body": [i, 0, n]})
    elif k == "chunked":
        hdrs.append(("transfer-encoding", framing.get("te", "chunked")))
        chunked = True
        off = 0
        chunks = framing.get("chunks") or ([n] if n else [])
        n = sum(chunks)
        for c in chunks:
            ext = framing.get("ext")
            line = "%x%s\r\n" % (c, (";x=y" if ext is True else (ext or "")))
            body_parts.append({"s": line})
            body_parts.append({"body": [i, off, c]})
            body_parts.append({"s": "\r\n"})
            off += c
        body_parts.append({"s": "0%s\r\n\r\n" % (";last" if framing.get("ext") is True else "")})
    else:
        bad = k
        # malformed framing classes (C01): the head itself is ambiguous
        if k == "cl+te":
            hdrs += [("content-length", "3"), ("transfer-encoding", "chunked")]
        elif k == "te+cl":
            hdrs += [("transfer-encoding", "chunked"), ("content-length", "3")]
        elif k == "dupcl":
            hdrs += [("content-length", "3"), ("content-length", "3")]
        elif k == "dupcl-diff":
            hdrs += [("content-length", "3"), ("content-length", "4")]
        elif k == "cl-list":
            hdrs += [("content-length", "3, 3")]
        elif k == "badcl-plus":
            hdrs += [("content-length", "+3")]
        elif k == "badcl-alpha":
            hdrs += [("content-length", "3x")]
        elif k == "badcl-neg":
            hdrs += [("content-length", "-3")]
        elif k == "badcl-empty":
            hdrs += [("content-length", "")]
        elif k == "badcl-huge":
            hdrs += [("content-length", "18446744073709551616")]
        elif k == "badte-gzip":
            hdrs += [("transfer-encoding", "gzip")]
        elif k == "badte-gzip-chunked":
            hdrs += [("transfer-encoding", "gzip, chunked")]
        elif k == "badte-chunked-gzip":
            hdrs += [("transfer-encoding", "chunked, gzip")]
        elif k == "badte-x":
            hdrs += [("transfer-encoding", "xchunked")]
        elif k == "dupte":
            hdrs += [("transfer-encoding", "chunked"), ("transfer-encoding", "chunked")]
        elif k == "te-identity-cl":
            hdrs += [("transfer-encoding", "identity"), ("content-length", "3")]
        elif k == "te10":
            hdrs += [("transfer-encoding", "chunked")]   # with ver = 10 (caller sets)
        elif k == "hugehead":
            pass
        elif k.startswith("badchunk"):
            hdrs.append(("transfer-encoding", "chunked"))
            chunked = True
            good = framing.get("good", [])   # well-formed chunks before the bad one
            off = 0
            for c in good:
                body_parts += [{"s": "%x\r\n" % c}, {"body": [i, off, c]}, {"s": "\r\n"}]
                off += c
            n = off
            cls = k.split(":", 1)[1]
            bad_txt = {"size-alpha": "zz\r\n", "size-empty": "\r\n\r\n", "size-overflow": "fffffffffffffffff\r\n",
                       "size-neg": "-1\r\n", "no-crlf-after-data": "2\r\nabXX", "lf-only": "2\nab\r\n",
                       "size-space-digit": "2 2\r\nabcd\r\n", "ext-cr": "2;a\rb\r\nab\r\n", "size-0x": "0x2\r\nab\r\n",
                       # (a complete chunked body follows the forbidden byte: a decoder that lets it through ends the body cleanly)
                       "ext-lf": "2;name=a\nbcdef\r\nab\r\n0\r\n\r\n", "ext-ctl": "2;name=a\x1fbcdef\r\nab\r\n0\r\n\r\n",
                       "last-no-crlf": "0\r\nXY"}[cls]
            body_parts.append({"s": bad_txt, "bad": True})
        else:
            raise ValueError("unknown framing " + k)
    vs = "HTTP/1.1" if ver == 11 else "HTTP/1.0"
    head = "%s %s %s\r\n" % (m, target, vs) + "".join("%s: %s\r\n" % h for h in hdrs) + "\r\n"
    if bad == "hugehead":
        pad = framing.get("pad", 140000)
        head = "%s %s %s\r\n" % (m, target, vs) + "".join("%s: %s\r\n" % h for h in hdrs)
        parts = [{"s": head}, {"s": "x-big: "}, {"fill": [ord("a"), pad]}, {"s": "\r\n\r\n"}]
        head_len = len(head) + 7 + pad + 4
    else:
        parts = [{"s": head}]
        head_len = len(head)
    blen = 0
    bad_off = None
    for p in body_parts:
        ln = len(p["s"]) if "s" in p else p["body"][2]
        if p.get("bad"):
            bad_off = head_len + blen
            p = {"s": p["s"]}
        blen += ln
        parts.append(p)
    gt = {"m": m, "ver": ver, "conn": conn, "expect": bool(expect), "blen": n, "chunked": chunked, "wirelen": head_len + blen,
          "headlen": head_len, "bad": bad or "", "badoff": bad_off if bad_off is not None else -1,
          "upgrade": any(h[0].lower() == "upgrade" for h in hdrs) or m == "CONNECT"}
    ex = {"target": target, "hh": hdr_hash(hdrs)}
    return parts, gt, ex


def prog_facts(p):
    """Facts about a handler program that the monitor needs (pure description of the program)."""
    r = p.get("resp", {})
    b = r.get("body", {})
    kind = b.get("k", "empty")
    chunks = b.get("chunks", [])
    total = sum(chunks)
    if kind == "body-stream":
        pass
    sized = kind in ("bytes", "sized-stream", "custom-sized", "empty")
    declared = b.get("declared", total) if kind in ("sized-stream", "custom-sized") else (total if kind == "bytes" else 0)
    hdrs = [h[0].lower() for h in r.get("hdrs", [])]
    read = p.get("read", "none")
    # index (1-based) of the first empty chunk that is followed by more data: only a custom body can yield it
    first_empty = 0
    if kind in ("custom-stream", "custom-sized"):
        for j, c in enumerate(chunks):
            if c == 0 and any(x > 0 for x in chunks[j + 1:]):
                first_empty = sum(chunks[:j])  # bytes before the first empty chunk
                first_empty = first_empty if first_empty > 0 else -1
                break
    return {"status": r.get("status", 200), "conn": r.get("conn", "-"), "kind": kind, "sized": sized, "declared": declared,
            "total": total, "none": kind == "none", "end_err": b.get("end") == "err", "read": "all" if read == "all" else ("none" if read == "none" else "part"),
            "keep": p.get("keep", "handler"), "user_cl": "content-length" in hdrs, "user_te": "transfer-encoding" in hdrs,
            "svc_err": bool(p.get("svc_err")), "before_empty": first_empty, "pend": p.get("pend", 0) + p.get("pend2", 0),
            "bpend": sum(1 for x in b.get("pend", []) if x), "no_chunking": "no_chunking" in r}


def assemble(reqs, progs, cfg=None, sock=None, steps=None, epilogue=True, probe=False):
    """reqs: list of kwargs for build_request (1-based index assigned here); progs: list of programs."""
    cfg = dict({"ka_ms": 5000, "head_ms": 5000, "disc_ms": 0, "half_closed": True, "wbuf": 0, "graceful": False, "probe": probe, "quiet": False, "mem": False, "maxchunk": 0, "qallow": 0, "upgrade": False},
               **(cfg or {}))
    sock = dict({"budget": -1, "flush": "ready", "shutdown": "ready"}, **(sock or {}))
    wire, gt, ex, methods = [], [], {}, []
    rej = {"at": 0, "off": 0, "detect": 0, "cls": "", "status": 0, "kind": ""}
    off = 0
    for idx, r in enumerate(reqs):
        i = idx + 1
        parts, g, e = build_request(i, **r)
        g["start"] = off
        g["end"] = off + g["wirelen"]
        if g["bad"] and not rej["at"]:
            rej = {"at": i, "off": off, "detect": (off + g["badoff"] + 1) if g["badoff"] >= 0 else off + g["headlen"], "cls": g["bad"],
                   "status": 431 if g["bad"] == "hugehead" else 400, "kind": "chunk" if g["badoff"] >= 0 else "head"}
            if g["bad"] == "hugehead":
                rej["detect"] = off + 131072
        off += g["wirelen"]
        wire += parts
        gt.append(g)
        ex[str(i)] = e
        methods.append(g["m"])
    pd = {str(i + 1): p for i, p in enumerate(progs)}
    pd["default"] = {"resp": {"status": 200, "body": {"k": "bytes", "chunks": [2]}}}
    pf = [prog_facts(p) for p in progs]
    case = {"cfg": cfg, "sock": sock, "wire": wire, "gt": gt, "expect": ex, "methods": methods, "progs": pd, "pf": pf, "rej": rej,
            "total": off, "steps": list(steps or []), "epi": False}
    if epilogue:
        add_epilogue(case)
    return case


def add_epilogue(case, ticks=None):
    """Makes everything ready so that the connection must run to completion: all bytes, EOF, unlimited budget,
    all tokens, and time beyond every configured timeout."""
    st = case["steps"]
    st.append({"w": -1})
    st.append({"flushok": 1})
    st.append({"seg": case["total"]})
    for i, p in enumerate(case["pf"]):
        for _ in range(p["pend"]):
            st.append({"h": i + 1})
        for _ in range(p["bpend"]):
            st.append({"b": i + 1})
    st.append({"eof": 1})
    st.append({"shutok": 1})
    cfg = case["cfg"]
    horizon = max(cfg["ka_ms"], 0) + cfg["head_ms"] + cfg["disc_ms"] + 1500
    st.append({"tick": 600})
    st.append({"tick": horizon})
    case["epi"] = True
    case["epi_from"] = len(st) - (5 + sum(p["pend"] + p["bpend"] for p in case["pf"]) + 2)


# ---------------------------------------------------------------------------------------------
# random drivers (impl -> spec direction)
# ---------------------------------------------------------------------------------------------
BAD_HEAD = ["cl+te", "te+cl", "dupcl", "dupcl-diff", "cl-list", "badcl-plus", "badcl-alpha", "badcl-neg", "badcl-empty", "badcl-huge",
            "badte-gzip", "badte-gzip-chunked", "badte-chunked-gzip", "badte-x", "dupte", "te-identity-cl"]
BAD_CHUNK = ["size-alpha", "size-empty", "size-overflow", "size-neg", "no-crlf-after-data", "lf-only", "size-space-digit", "ext-cr",
             "size-0x", "last-no-crlf", "ext-lf", "ext-ctl"]


def rand_req(rnd, allow_bad=False, big=False):
    m = rnd.choice(["GET", "GET", "HEAD", "POST", "POST", "PUT"])
    ver = rnd.choice([11, 11, 11, 10])
    conn = rnd.choice(["-", "-", "-", "close", "keep-alive"])
    r = {"m": m, "ver": ver, "conn": conn}
    fk = rnd.choice(["none", "none", "cl", "chunked"]) if m != "HEAD" else "none"
    if ver == 10 and fk == "chunked":
        fk = "cl"
    if ver == 10 and m == "POST" and fk == "none":
        fk = "cl"
    sizes = [0, 1, 2, 3, 10, 100, 1000] + ([5000, 40000, 70000] if big else [])
    if fk == "cl":
        r["framing"] = {"k": "cl", "n": rnd.choice(sizes)}
    elif fk == "chunked":
        nchunks = rnd.randint(0, 3)
        r["framing"] = {"k": "chunked", "chunks": [rnd.choice(sizes[1:]) for _ in range(nchunks)], "ext": rnd.choice([False, False, True, ";a", ";a=\"q;r\""]),
                        "te": rnd.choice(["chunked", "chunked", "Chunked", " chunked "])}
    if ver == 11 and m in ("POST", "PUT") and rnd.random() < 0.15:
        r["expect"] = True
    if allow_bad:
        if rnd.random() < 0.5:
            r["framing"] = {"k": rnd.choice(BAD_HEAD)}
            r["ver"] = 11
            if r["m"] == "HEAD":
                r["m"] = "POST"
        else:
            r["framing"] = {"k": "badchunk:" + rnd.choice(BAD_CHUNK), "good": [rnd.choice([1, 3, 10]) for _ in range(rnd.randint(0, 2))]}
            r["ver"] = 11
            r["m"] = "POST"
    return r


def rand_prog(rnd, req, faults=True):
    p = {"pend": rnd.choice([0, 0, 0, 1, 2]), "read": rnd.choice(["none", "all", "all", "n:1"]), "keep": rnd.choice(["handler", "drop", "handler", "body"]),
         "pend2": rnd.choice([0, 0, 1])}
    status = rnd.choice([200, 200, 200, 200, 404, 204, 304, 500])
    kind = rnd.choice(["empty", "bytes", "bytes", "sized-stream", "body-stream", "custom-stream", "custom-sized", "none"])
    chunks = [rnd.choice([0, 1, 2, 3, 10, 100, 5000]) for _ in range(rnd.randint(0, 4))]
    if kind == "bytes":
        chunks = [sum(chunks)]
    if kind == "none" and status not in (204, 304):
        kind = "empty"     # a 200 without any length header is delimited by connection close: a handler choice, not generated
    if kind in ("empty", "none"):
        chunks = []
    body = {"k": kind, "chunks": chunks, "pend": [rnd.choice([0, 0, 1]) for _ in chunks]}
    if kind in ("sized-stream", "custom-sized"):
        tot = sum(chunks)
        body["declared"] = tot if not faults or rnd.random() < 0.8 else max(0, tot + rnd.choice([-1, 1, 5]))
    if faults and kind in ("sized-stream", "body-stream", "custom-stream", "custom-sized") and rnd.random() < 0.08:
        body["end"] = "err"
    if kind == "custom-sized" and "declared" not in body:
        body["declared"] = sum(chunks)
    if p["keep"] == "body" and kind not in ("custom-stream", "custom-sized"):
        p["keep"] = "handler"
    resp = {"status": status, "body": body, "conn": rnd.choice(["-", "-", "-", "-", "close", "keep-alive"])}
    if rnd.random() < 0.1:
        resp["hdrs"] = [rnd.choice([["content-length", "7"], ["transfer-encoding", "chunked"]])]
    p["resp"] = resp
    return p


def rand_steps(rnd, case, one_byte=False):
    """Random environment schedule before the epilogue."""
    total = case["total"]
    st = []
    left = total
    toks = []
    for i, p in enumerate(case["pf"]):
        toks += [{"h": i + 1}] * p["pend"] + [{"b": i + 1}] * p["bpend"]
    rnd.shuffle(toks)
    budgeted = case["sock"]["budget"] >= 0
    while left > 0 or toks:
        c = rnd.random()
        if left > 0 and c < 0.55:
            n = 1 if one_byte else rnd.choice([1, 2, 3, 5, 17, 64, left, left, max(1, left // 2)])
            n = min(n, left)
            st.append({"seg": n})
            left -= n
        elif toks and c < 0.8:
            st.append(toks.pop())
        elif budgeted and c < 0.9:
            st.append({"w": rnd.choice([1, 1, 7, 50, 4000])})
        elif c < 0.93:
            st.append({"tick": rnd.choice([10, 100, 400])})
        if len(st) > 4000:
            break
    return st


def random_case(rnd, nreq=None, allow_bad=0.25, one_byte=0.15, budget=0.3, faults=True, probe=False):
    n = nreq or rnd.choice([1, 2, 2, 3, 3, 4, 6])
    reqs = []
    badpos = rnd.randint(1, n) if rnd.random() < allow_bad else 0
    for i in range(1, n + 1):
        reqs.append(rand_req(rnd, allow_bad=(i == badpos)))
    progs = [rand_prog(rnd, r, faults) for r in reqs]
    cfg = {"ka_ms": rnd.choice([5000, 5000, 0, 2000]), "head_ms": rnd.choice([5000, 0]), "disc_ms": rnd.choice([0, 0, 1000]),
           "half_closed": rnd.choice([True, True, False])}
    sock = {}
    if rnd.random() < budget:
        sock["budget"] = rnd.choice([0, 1, 10, 100])
    case = assemble(reqs, progs, cfg=cfg, sock=sock, epilogue=False, probe=probe)
    case["steps"] = rand_steps(rnd, case, one_byte=rnd.random() < one_byte)
    add_epilogue(case)
    return case
