#!/usr/bin/env python3
"""Regenerates MANIFEST.json from the table below (single place where claims are stated)."""
import json
import os

ROOT = os.path.dirname(os.path.dirname(os.path.abspath(__file__)))
props = [json.loads(l) for l in open(os.path.join(ROOT, "properties.jsonl"))]

CLAIMS = {
    "C07": dict(
        text="TLC explores every distinct state of the Inner-shaped model of h1::payload (fields verbatim, one action per public call) "
             "to a depth bound, checking that every observation it can produce is accepted by the property monitor PayloadRef (exact "
             "bytes in order, truthful ending, reader and feeder wake-up obligations) and two structural invariants (a parked party "
             "always has its waker stored). Every generated call history is replayed on a real Payload::create() pair with counting "
             "wakers and the observed results are validated by TLC against the same monitor; long random call sequences likewise.",
        note="Trusted: harness projection (run-length decoding of chunk contents, wake counters); the depth bound; sizes scaled so the "
             "model's LIM corresponds to 32 KiB.",
        tech="TLA+ Ref monitor + TLC exhaustive model checking to a depth bound + replay of all generated histories + trace validation",
        ref="DESIGN.md 4 C07"),
    "C18": dict(
        text="TLC exhaustively explores the implementation-shaped HeaderMap model (hash map of value lists, counting iterators) against "
             "the multimap monitor HeaderMapRef for all operation sequences over bounded contents; every reachable (content, last op) "
             "pair is replayed on the real HeaderMap and every observed result (returned values, lengths, iterator items and size hints "
             "at each step, conversions) is validated by TLC against the same monitor, plus long random sequences.",
        note="Trusted: the harness's projection of API results to events; http::HeaderMap; small name/value alphabet. Hash order is "
             "left to the implementation.",
        tech="TLA+ Ref monitor + TLC model checking + trace validation of replayed and random operation sequences",
        ref="DESIGN.md 4 C18"),
}
NA_REASON = "check not built yet in this round (planned; see DESIGN.md section 4)"
NA = {}


def main():
    ids = [p["id"] for p in props]
    claimed = [i for i in ids if i in CLAIMS]
    m = {
        "version": 1,
        "setup_cmd": "cd harness && cargo build --release --offline --bin conform",
        "hooks": {"guard": "actix_web_verif",
                  "enable": "harness/.cargo/config.toml passes --cfg actix_web_verif to every crate built for the harness; no hook is "
                            "committed in /repo so far (all observations go through public API)",
                  "baseline_off_cmd": "cd /repo && cargo nextest run --workspace --no-fail-fast --tool-config-file "
                                      "pb:/w/lib/nextest.toml --profile pb --test-threads 8 --offline",
                  "source_commits": [], "add_only": True},
        "engines": [
            {"name": "tlc", "path": "/opt/veriftools/tla/tla2tools.jar", "serves_properties": claimed,
             "kind_free_text": "TLC: model-checks the implementation-shaped models against the Ref monitors, generates cases, "
                               "validates recorded traces (spec/<area>/*.tla)"},
            {"name": "conform", "path": "harness/", "serves_properties": claimed,
             "kind_free_text": "Rust harness with path dependencies on /repo: replays generated cases on the real code and records "
                               "NDJSON traces"}],
        "checks": [], "notes": "see DESIGN.md; known_findings.json lists recorded and fixed defects",
        "not_applicable": []}
    for i in ids:
        if i in CLAIMS:
            c = CLAIMS[i]
            m["checks"].append({
                "property_id": i, "quick_cmd": "./check %s --tier quick" % i, "thorough_cmd": "./check %s --tier thorough" % i,
                "evidence_file": "evidence/%s.json" % i, "replay_cmd_template": "./check %s --replay {path}" % i,
                "engine": "tlc+conform",
                "level_claimed": {"category": c.get("level", "model_checking"), "text": c["text"], "design_ref": c["ref"]},
                "level_note": c["note"], "technique": c["tech"]})
        else:
            m["not_applicable"].append({"property_id": i, "reason": NA.get(i, NA_REASON)})
    json.dump(m, open(os.path.join(ROOT, "MANIFEST.json"), "w"), indent=1)


if __name__ == "__main__":
    main()
