#!/usr/bin/env python3
"""Regenerates MANIFEST.json from the table below (single place where claims are stated)."""
import json
import os

ROOT = os.path.dirname(os.path.dirname(os.path.abspath(__file__)))
props = [json.loads(l) for l in open(os.path.join(ROOT, "properties.jsonl"))]

CLAIMS = {
    "C07": dict(
        text="TLC explores every distinct state of the Inner-shaped model of h1::payload (fields verbatim, one action per public call) "
             "to a depth bound, checking that every observation it can produce is accepted by the property monitor PayloadRef (exact "
             "bytes in order, truthful ending, reader and feeder wake-up obligations) and two structural invariants (a parked party "
             "always has its waker stored). Every generated call history is replayed on a real Payload::create() pair with counting "
             "wakers and the observed results are validated by TLC against the same monitor; long random call sequences likewise.",
        note="Trusted: harness projection (run-length decoding of chunk contents, wake counters); the depth bound; sizes scaled so the "
             "model's LIM corresponds to 32 KiB.",
        tech="TLA+ Ref monitor + TLC exhaustive model checking to a depth bound + replay of all generated histories + trace validation",
        ref="DESIGN.md 4 C07"),
    "C18": dict(
        text="TLC exhaustively explores the implementation-shaped HeaderMap model (hash map of value lists, counting iterators) against "
             "the multimap monitor HeaderMapRef for all operation sequences over bounded contents; every reachable (content, last op) "
             "pair is replayed on the real HeaderMap and every observed result (returned values, lengths, iterator items and size hints "
             "at each step, conversions) is validated by TLC against the same monitor, plus long random sequences.",
        note="Trusted: the harness's projection of API results to events; http::HeaderMap; small name/value alphabet. Hash order is "
             "left to the implementation.",
        tech="TLA+ Ref monitor + TLC model checking + trace validation of replayed and random operation sequences",
        ref="DESIGN.md 4 C18"),
}
CLAIMS['C01'] = dict(text='TLC checks the implementation-shaped dispatcher model H1Conn (decode-ahead, codec payload state, parse-error handling) against the framing clauses of the monitor H1Ref for a malformed head or chunk at each position; the environment histories of all terminal states are replayed on the real HttpService over a scripted socket, together with directed families (every malformed class at positions 1-3, cut at every framing boundary / every byte offset in the thorough tier, 1-byte reads) and seeded random pipelines, and every recorded execution is validated by TLC against H1Ref (requests reaching the service equal the sent ones, exact bodies, 4xx + close for malformed input, nothing dispatched after the rejection point).', note='Trusted: the harness (scripted socket, wake-driven executor, client-side response parser per RFC 7230 3.3.3), the request/byte generator lib/h1gen.py whose own description of what it sent is the ground truth; H1Conn abstracts bytes to units and has no timers; verdicts come only from the H1Ref monitor over observable events.', tech='TLA+ Ref monitor (H1Ref) + TLC model checking of the dispatcher model H1Conn against it + replay of TLC-generated scripts on the real dispatcher + TLC trace validation of recorded executions', ref='DESIGN.md 4 C01')
CLAIMS['C02'] = dict(text='TLC explores H1Conn over all mixes of 2-3 pipelined GET/HEAD x HTTP/1.0/1.1 x Connection options x handler delay x response body kinds and checks every response event against H1Ref (one per request, in order, version/length/connection headers a function of its own request and response, body faithful, failed bodies never complete-looking); all terminal scripts are replayed on the real dispatcher and validated, plus seeded random programs (sized/stream/custom bodies with empty chunks, short/long/erroring bodies, user framing headers).', note='Trusted: the harness (scripted socket, wake-driven executor, client-side response parser per RFC 7230 3.3.3), the request/byte generator lib/h1gen.py whose own description of what it sent is the ground truth; H1Conn abstracts bytes to units and has no timers; verdicts come only from the H1Ref monitor over observable events.', tech='TLA+ Ref monitor (H1Ref) + TLC model checking of the dispatcher model H1Conn against it + replay of TLC-generated scripts on the real dispatcher + TLC trace validation of recorded executions', ref='DESIGN.md 4 C02')
CLAIMS['C03'] = dict(text='H1Conn with request bodies (sized/chunked), consumers that read none/all and drop or hold the payload, close requested by either side; H1Ref clauses CloseIsFinal (nothing written or dispatched after a closing response or an error response) and NoReparse (every dispatched request equals the next sent one). Scripts replayed and validated as for C02.', note='Trusted: the harness (scripted socket, wake-driven executor, client-side response parser per RFC 7230 3.3.3), the request/byte generator lib/h1gen.py whose own description of what it sent is the ground truth; H1Conn abstracts bytes to units and has no timers; verdicts come only from the H1Ref monitor over observable events.', tech='TLA+ Ref monitor (H1Ref) + TLC model checking of the dispatcher model H1Conn against it + replay of TLC-generated scripts on the real dispatcher + TLC trace validation of recorded executions', ref='DESIGN.md 4 C03')
CLAIMS['C04'] = dict(text="H1Conn with write budgets 0/1/unlimited and the invariant NoStall (an idle, unwoken, running connection has no possible work); replay under a wake-driven executor that polls only when the task's waker fired, with a spurious-wake probe after every environment step (progress on a spurious poll = lost wake-up), exactly-once delivery judged by the independent response parser, and termination after the epilogue (all bytes, EOF, unlimited budget, all tokens, time).", note='Trusted: the harness (scripted socket, wake-driven executor, client-side response parser per RFC 7230 3.3.3), the request/byte generator lib/h1gen.py whose own description of what it sent is the ground truth; H1Conn abstracts bytes to units and has no timers; verdicts come only from the H1Ref monitor over observable events.', tech='TLA+ Ref monitor (H1Ref) + TLC model checking of the dispatcher model H1Conn against it + replay of TLC-generated scripts on the real dispatcher + TLC trace validation of recorded executions', ref='DESIGN.md 4 C04')
CLAIMS['C05'] = dict(text='Memory accounting clauses of H1Ref (input held beyond the read buffer + read-ahead bound, response bytes buffered beyond write-buffer size + one chunk, live heap beyond a configuration-derived bound) evaluated on Mem observations of directed scenarios, each at input size X and 4X: huge bodies against a stuck or slow consumer, endless heads, thousands of pipelined requests against a stuck handler or stuck socket, big streaming responses against a slow socket, several h1_write_buffer_size values; the dispatcher model H1Conn supplies the schedule skeletons.', note='Trusted: the harness (scripted socket, wake-driven executor, client-side response parser per RFC 7230 3.3.3), the request/byte generator lib/h1gen.py whose own description of what it sent is the ground truth; H1Conn abstracts bytes to units and has no timers; verdicts come only from the H1Ref monitor over observable events. Heap is a measured quantity (counting allocator), not something TLA+ decides; buffer sizes are not modelled in H1Conn.', tech='TLA+ Ref monitor (H1Ref) + TLC model checking of the dispatcher model H1Conn against it + replay of TLC-generated scripts on the real dispatcher + TLC trace validation of recorded executions', ref='DESIGN.md 4 C05')
CLAIMS['C06'] = dict(text='Timing clauses of H1Ref over virtual-time stamped observations (408 only and always after the head deadline, idle keep-alive connection closed at the deadline and not before, shutdown bounded by the disconnect timeout, graceful signal: in-flight answered with close, nothing new dispatched) on directed schedules that place each arrival/tick/signal before, at and after every deadline for all timer configurations (including disabled), under a paused clock.', note='Trusted: the harness (scripted socket, wake-driven executor, client-side response parser per RFC 7230 3.3.3), the request/byte generator lib/h1gen.py whose own description of what it sent is the ground truth; H1Conn abstracts bytes to units and has no timers; verdicts come only from the H1Ref monitor over observable events. Clock granularity: 600 ms slack (500 ms cached clock + one slice).', tech='TLA+ Ref monitor (H1Ref) + TLC model checking of the dispatcher model H1Conn against it + replay of TLC-generated scripts on the real dispatcher + TLC trace validation of recorded executions', ref='DESIGN.md 4 C06')
NA_REASON = "check not built yet in this round (planned; see DESIGN.md section 4)"
NA = {}


def main():
    ids = [p["id"] for p in props]
    claimed = [i for i in ids if i in CLAIMS]
    m = {
        "version": 1,
        "setup_cmd": "cd harness && cargo build --release --offline --bin conform",
        "hooks": {"guard": "actix_web_verif",
                  "enable": "harness/.cargo/config.toml passes --cfg actix_web_verif to every crate built for the harness; no hook is "
                            "committed in /repo so far (all observations go through public API)",
                  "baseline_off_cmd": "cd /repo && cargo nextest run --workspace --no-fail-fast --tool-config-file "
                                      "pb:/w/lib/nextest.toml --profile pb --test-threads 8 --offline",
                  "source_commits": [], "add_only": True},
        "engines": [
            {"name": "tlc", "path": "/opt/veriftools/tla/tla2tools.jar", "serves_properties": claimed,
             "kind_free_text": "TLC: model-checks the implementation-shaped models against the Ref monitors, generates cases, "
                               "validates recorded traces (spec/<area>/*.tla)"},
            {"name": "conform", "path": "harness/", "serves_properties": claimed,
             "kind_free_text": "Rust harness with path dependencies on /repo: replays generated cases on the real code and records "
                               "NDJSON traces"}],
        "checks": [], "notes": "see DESIGN.md; known_findings.json lists recorded and fixed defects",
        "not_applicable": []}
    for i in ids:
        if i in CLAIMS:
            c = CLAIMS[i]
            m["checks"].append({
                "property_id": i, "quick_cmd": "./check %s --tier quick" % i, "thorough_cmd": "./check %s --tier thorough" % i,
                "evidence_file": "evidence/%s.json" % i, "replay_cmd_template": "./check %s --replay {path}" % i,
                "engine": "tlc+conform",
                "level_claimed": {"category": c.get("level", "model_checking"), "text": c["text"], "design_ref": c["ref"]},
                "level_note": c["note"], "technique": c["tech"]})
        else:
            m["not_applicable"].append({"property_id": i, "reason": NA.get(i, NA_REASON)})
    json.dump(m, open(os.path.join(ROOT, "MANIFEST.json"), "w"), indent=1)


if __name__ == "__main__":
    main()
