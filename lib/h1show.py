#!/usr/bin/env python3
import sys, json, os, subprocess
sys.path.insert(0, os.path.dirname(os.path.abspath(__file__)))
import vlib
obj = json.load(open(sys.argv[1]))
case = obj.get("case") or obj
print("REJECT:", json.dumps(obj.get("reject"))[:400])
print("cfg", case["cfg"], "sock", case["sock"], "rej", case["rej"])
for i, (g, p) in enumerate(zip(case["gt"], case["pf"])):
    print(" req", i + 1, {k: g[k] for k in ("m", "ver", "conn", "expect", "blen", "chunked", "start", "end", "headlen", "bad")})
    print("   prog", case["progs"][str(i + 1)])
w = "".join(p.get("s", "<%s>" % json.dumps(p)) for p in case["wire"])
print("wire:", repr(w)[:1500])
print("steps:", json.dumps(case["steps"])[:1500])
os.makedirs("/verif/out/show", exist_ok=True)
vlib.write_ndjson("/verif/out/show/c.ndjson", [case])
subprocess.run(["/verif/harness/target/release/conform", "h1", "replay", "/verif/out/show/c.ndjson", "/verif/out/show/t.ndjson"], stdout=subprocess.DEVNULL)
for l in open("/verif/out/show/t.ndjson"):
    e = json.loads(l)
    if e["ev"] in ("Reset",):
        continue
    print("  ", json.dumps(e)[:260])
