#!/bin/bash
# Runs the quick (or $1) tier of every claimed check on /repo as it stands; prints rc and any VIOLATION / KNOWN-FINDING line.
cd "$(dirname "$0")/.."
tier=${1:-quick}
mkdir -p out
for p in C01 C02 C03 C04 C05 C06 C07 C08 C09 C10 C11 C12 C13 C14 C15 C16 C17 C18 C19; do
  t0=$(date +%s)
  ./check $p --tier $tier > out/all-$p.log 2>&1; rc=$?
  echo "$p rc=$rc $(( $(date +%s) - t0 ))s"
  grep -E "^(VIOLATION|KNOWN-FINDING|TOOL-ERROR)" out/all-$p.log | cut -c1-260
done
