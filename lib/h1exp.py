#!/usr/bin/env python3
"""scratch driver: random h1 cases -> harness -> monitor; prints signature histogram"""
import sys, json, random, os, collections
sys.path.insert(0, os.path.dirname(os.path.abspath(__file__)))
import h1gen, vlib
seed = int(sys.argv[1]) if len(sys.argv) > 1 else 1
n = int(sys.argv[2]) if len(sys.argv) > 2 else 300
cfg = sys.argv[3] if len(sys.argv) > 3 else "Trace_all.cfg"
rnd = random.Random(seed)
cases = [h1gen.random_case(rnd, probe=True) for _ in range(n)]
wd = os.path.join(vlib.OUT, "exp")
os.makedirs(wd, exist_ok=True)
rep = vlib.Report("C02", "quick", seed, wd)
rep.known = []
ar = vlib.Area(rep, "h1", "H1Trace", cfg)
ar.bin = os.path.join(vlib.HARNESS, "target/release/conform")
ar.run_cases(cases, "exp")
h = collections.Counter(s for s, _, _ in rep.violations)
first = {}
for s, w, p in rep.violations:
    first.setdefault(s, (w, p))
for s, c in h.most_common():
    print("%5d  %s\n         %s\n         %s" % (c, s, first[s][0][:250], first[s][1]))
print("cases", n, "events", rep.cov["evaluations"])
