------------------------------------ MODULE FilesMC ------------------------------------
(* Implementation-shaped model of actix-files: PathBufWrap::parse_path (decode once, reject *)
(* a changed '/' count, '..' pops, hidden/special segment rules) over sequences of segment  *)
(* tokens, and the Range arithmetic of NamedFile::into_response over small file lengths.    *)
(* Checked: a resolved path never leaves the root (depth never negative, every component    *)
(* a plain name), and every range outcome is 200, a well-formed 206 within the file, or 416. *)
(* Every case is printed for replay against the real service.                               *)
EXTENDS Integers, Sequences, FiniteSets, TLC, Json
CONSTANTS Tokens, MaxSegs, Lengths, Hidden
VARIABLES c

(* decoded form of a token as seen by parse_path after the router's requoting *)
\* N plain name, F the canary's file name, H hidden name, DOT ".", DD "..", E "", EDD %2e%2e (-> ".."), ESL "..%2f" (slash appears
\* on decoding -> rejected), BSL name with a backslash, BADUTF %ff, STAR "*x", COLON "x:", DENC %252e%252e (-> "%2e%2e": a plain name)
Step(st, t) ==
  IF st.err THEN st
  ELSE CASE t \in {"DOT"}            -> [st EXCEPT !.err = TRUE]
         [] t \in {"DD", "EDD"}      -> [st EXCEPT !.buf = IF Len(@) = 0 THEN @ ELSE SubSeq(@, 1, Len(@) - 1)]
         [] t = "H"                  -> IF Hidden THEN [st EXCEPT !.buf = Append(@, "H")] ELSE [st EXCEPT !.err = TRUE]
         [] t \in {"STAR", "COLON", "ESL", "BADUTF"} -> [st EXCEPT !.err = TRUE]
         [] t = "E"                  -> st
         [] OTHER                    -> [st EXCEPT !.buf = Append(@, t)]
RECURSIVE Fold(_, _, _)
Fold(st, toks, i) == IF i > Len(toks) THEN st ELSE Fold(Step(st, toks[i]), toks, i + 1)
ParsePath(toks) ==
  \* ESL / BADUTF make the whole path fail before any segment is looked at
  IF \E i \in 1..Len(toks) : toks[i] \in {"ESL", "BADUTF"} THEN [err |-> TRUE, buf |-> <<>>]
  ELSE Fold([err |-> FALSE, buf |-> <<>>], toks, 1)

(* range arithmetic: first range of the header against a file of length L (http-range + named.rs) *)
RangeForms == {[k |-> "none"], [k |-> "garbage"]} \cup {[k |-> "fl", a |-> a, b |-> b] : a, b \in 0..4} \cup
              {[k |-> "open", a |-> a] : a \in 0..4} \cup {[k |-> "suffix", n |-> n] : n \in 0..4}
RangeImpl(L, r) ==
  CASE r.k = "none"    -> [status |-> 200, a |-> 0, b |-> L - 1]
    [] r.k = "garbage" -> [status |-> 416, a |-> 0, b |-> 0]
    [] r.k = "fl"      -> IF r.b < r.a \/ r.a >= L THEN [status |-> 416, a |-> 0, b |-> 0]
                          ELSE [status |-> 206, a |-> r.a, b |-> (IF r.b >= L THEN L - 1 ELSE r.b)]
    [] r.k = "open"    -> IF r.a >= L THEN [status |-> 416, a |-> 0, b |-> 0] ELSE [status |-> 206, a |-> r.a, b |-> L - 1]
    [] r.k = "suffix"  -> LET n == IF r.n > L THEN L ELSE r.n IN
                          IF n = 0 THEN [status |-> 416, a |-> 0, b |-> 0]      \* selects no bytes: unsatisfiable (fix: commit in /repo)
                          ELSE [status |-> 206, a |-> L - n, b |-> L - 1]

PathCases == {[kind |-> "path", toks |-> t] : t \in UNION {[1..n -> Tokens] : n \in 1..MaxSegs}}
RangeCases == {[kind |-> "range", L |-> L, r |-> r] : L \in Lengths, r \in RangeForms}
Init == c \in PathCases \cup RangeCases
Next == UNCHANGED c
Spec == Init /\ [][Next]_c

StaysInside == c.kind = "path" => LET r == ParsePath(c.toks) IN r.err \/ \A i \in 1..Len(r.buf) : r.buf[i] \notin {"DD", "EDD", "DOT", "E"}
RangeWellFormed == c.kind = "range" => LET o == RangeImpl(c.L, c.r) IN
                      o.status \in {200, 416} \/ (o.status = 206 /\ 0 <= o.a /\ o.a <= o.b /\ o.b < c.L)
EmitCase == PrintT(<<"CASE", ToJson(c)>>)
=======================================================================================
