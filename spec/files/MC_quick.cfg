SPECIFICATION Spec
CONSTANTS
  Tokens = {"N", "F", "H", "DOT", "DD", "E", "EDD", "ESL", "BSL", "BADUTF", "STAR", "DENC"}
  MaxSegs = 3
  Lengths = {0, 1, 3}
  Hidden = TRUE
INVARIANTS StaysInside RangeWellFormed EmitCase
CHECK_DEADLOCK FALSE
