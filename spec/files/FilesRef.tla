----------------------------------- MODULE FilesRef -----------------------------------
(* Property-level specification of C16 (actix-files) as a monitor over two kinds of        *)
(* observations of an App with Files mounted on a temp tree that has a canary file outside  *)
(* the root:                                                                                *)
(*   path{status, served}     served in {"none", "inside", "outside"} (by file content)     *)
(*   range{L, cond, status, a, b, total, blen, body_ok, clen}                               *)
(*        Content-Range "bytes a-b/total" (or -1), body length, body = file[a..b] / file    *)
EXTENDS Integers, Sequences, TLC
Rej(sig, clause) == [tag |-> "rej", sig |-> sig, clause |-> clause]
E(c, ok, sig) == IF c THEN ok ELSE Rej(sig, "")
RefInit == [tag |-> "ok"]
RefStep(rs, e) ==
  CASE e.ev = "path" ->
         E(e.served # "outside",
          E(e.status # 500,
           E((e.status = 200) = (e.served = "inside") \/ e.status \in {301, 302, 307, 308}, rs, "C16/Path/200-without-a-file-under-the-root"),
           "C16/Path/internal-error"),
          "C16/Path/served-a-file-outside-the-root")
    [] e.ev = "range" ->
         IF e.status = 200 THEN E(e.blen = e.L /\ e.body_ok /\ e.clen = e.L, rs, "C16/Range/full-response-is-not-the-file")
         ELSE IF e.status = 206 THEN
              E(e.a >= 0 /\ e.a <= e.b /\ e.b < e.L /\ e.total = e.L,
               E(e.blen = e.b - e.a + 1 /\ e.body_ok /\ e.clen = e.blen, rs, "C16/Range/body-is-not-the-announced-range"),
               "C16/Range/impossible-content-range")
         ELSE IF e.status \in {304, 412} THEN E(e.cond /\ e.blen = 0, rs, "C16/Range/conditional-status-without-precondition")
         ELSE E(e.status = 416 /\ e.hasrange, rs, "C16/Range/unexpected-status")
    \* conditional requests with the validator the service hands out (RFC 7232: If-None-Match compares weakly, If-Match strongly;
    \* a strong validator is assumed, which is what the service sends)
    [] e.ev = "cond" ->
         LET want == CASE e.variant \in {"inm-same", "inm-weak", "inm-list"} -> 304
                       [] e.variant \in {"inm-other", "im-same"} -> 200
                       [] e.variant \in {"im-weak", "im-other"} -> 412
         IN E(~e.strong \/ e.status = want,
              E(IF e.status = 200 THEN e.blen = e.L ELSE e.blen = 0, rs, "C16/Conditional/body-does-not-fit-the-status"),
              "C16/Conditional/" \o e.variant)
    [] e.ev = "Panic" -> Rej("C16/Panic", "")
    [] OTHER -> rs
=======================================================================================
