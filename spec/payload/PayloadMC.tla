--------------------------------- MODULE PayloadMC ---------------------------------
(* Implementation-shaped model of actix-http/src/h1/payload.rs: the fields of        *)
(* `Inner` verbatim, one action per public call, transcribed line by line.           *)
(* Wakers: `task` / `io_task` are modelled as "a waker is stored"; wake() on a       *)
(* stored waker increments the delta counters dr / di reported in the event.         *)
EXTENDS PayloadRef, Json
CONSTANTS Sizes, MaxSteps, Errs, StartEof
VARIABLES len, eof, err, senderClosed, needRead, items, task, ioTask,   \* Inner
          senderAlive, readerAlive,                                   \* the two handles
          rs, steps, hist, nid, lastT

NoErr == "none"
Obs(e) == rs' = RefStep(rs, e)
\* lastT: the transition just taken (operation and who was parked before it): part of the VIEW so that every distinct
\* transition of the state graph, not only every distinct state, yields a replayed history
Op(o) == /\ steps < MaxSteps /\ steps' = steps + 1 /\ hist' = Append(hist, o)
         /\ lastT' = <<o.op, IF rs.tag = "ok" THEN rs.waitR ELSE FALSE, IF rs.tag = "ok" THEN rs.waitF ELSE FALSE>>
Fresh == nid' = nid + 1
Same == nid' = nid
InnerVars == <<len, eof, err, senderClosed, needRead, items, task, ioTask>>

(* Inner::wake / wake_io take the stored waker *)
WakeR == IF task THEN 1 ELSE 0
WakeIo == IF ioTask THEN 1 ELSE 0

FeedData == \E n \in Sizes :
  /\ senderAlive
  /\ Op([op |-> "FeedData", id |-> nid, n |-> n]) /\ Fresh
  /\ IF readerAlive
     THEN /\ len' = len + n /\ items' = Append(items, <<nid, n>>)
          /\ needRead' = (len + n < LIM)
          /\ task' = FALSE
          /\ Obs([ev |-> "FeedData", id |-> nid, n |-> n, dr |-> WakeR, di |-> 0])
          /\ UNCHANGED <<eof, err, senderClosed, ioTask>>
     ELSE /\ UNCHANGED InnerVars /\ Obs([ev |-> "FeedData", id |-> nid, n |-> n, dr |-> 0, di |-> 0])
  /\ UNCHANGED <<senderAlive, readerAlive>>

FeedEof ==
  /\ senderAlive
  /\ Op([op |-> "FeedEof"]) /\ Same
  /\ IF readerAlive
     THEN /\ senderClosed' = TRUE /\ eof' = TRUE /\ task' = FALSE
          /\ Obs([ev |-> "FeedEof", dr |-> WakeR, di |-> 0])
          /\ UNCHANGED <<len, err, needRead, items, ioTask>>
     ELSE /\ UNCHANGED InnerVars /\ Obs([ev |-> "FeedEof", dr |-> 0, di |-> 0])
  /\ UNCHANGED <<senderAlive, readerAlive>>

SetError == \E x \in Errs :
  /\ senderAlive
  /\ Op([op |-> "SetError", e |-> x]) /\ Same
  /\ IF readerAlive
     THEN /\ senderClosed' = TRUE /\ err' = x /\ task' = FALSE
          /\ Obs([ev |-> "SetError", e |-> x, dr |-> WakeR, di |-> 0])
          /\ UNCHANGED <<len, eof, needRead, items, ioTask>>
     ELSE /\ UNCHANGED InnerVars /\ Obs([ev |-> "SetError", e |-> x, dr |-> 0, di |-> 0])
  /\ UNCHANGED <<senderAlive, readerAlive>>

DropSender ==     \* Drop for PayloadSender -> close_sender
  /\ senderAlive
  /\ Op([op |-> "DropSender"]) /\ Same
  /\ senderAlive' = FALSE
  /\ IF readerAlive /\ ~senderClosed
     THEN /\ senderClosed' = TRUE /\ err' = "incomplete" /\ task' = FALSE
          /\ Obs([ev |-> "DropSender", dr |-> WakeR, di |-> 0])
          /\ UNCHANGED <<len, eof, needRead, items, ioTask>>
     ELSE /\ UNCHANGED InnerVars /\ Obs([ev |-> "DropSender", dr |-> 0, di |-> 0])
  /\ UNCHANGED readerAlive

NeedRead ==
  /\ senderAlive
  /\ Op([op |-> "NeedRead"]) /\ Same
  /\ IF ~readerAlive THEN /\ UNCHANGED InnerVars /\ Obs([ev |-> "NeedRead", ret |-> "dropped", dr |-> 0, di |-> 0])
     ELSE IF needRead THEN /\ UNCHANGED InnerVars /\ Obs([ev |-> "NeedRead", ret |-> "read", dr |-> 0, di |-> 0])
     ELSE /\ ioTask' = TRUE /\ Obs([ev |-> "NeedRead", ret |-> "pause", dr |-> 0, di |-> 0])
          /\ UNCHANGED <<len, eof, err, senderClosed, needRead, items, task>>
  /\ UNCHANGED <<senderAlive, readerAlive>>

Poll ==           \* Inner::poll_next
  /\ readerAlive
  /\ Op([op |-> "Poll"]) /\ Same
  /\ IF items # <<>> THEN
        LET d == Head(items) nl == len - d[2] nr == (nl < LIM) IN
        /\ items' = Tail(items) /\ len' = nl /\ needRead' = nr
        /\ task' = IF nr /\ ~eof THEN TRUE ELSE task
        /\ ioTask' = FALSE
        /\ Obs([ev |-> "Poll", ret |-> "chunk", runs |-> <<d>>, dr |-> 0, di |-> WakeIo])
        /\ UNCHANGED <<eof, err, senderClosed>>
     ELSE IF err # NoErr THEN
        /\ err' = NoErr
        /\ Obs([ev |-> "Poll", ret |-> "err", e |-> err, dr |-> 0, di |-> 0])
        /\ UNCHANGED <<len, eof, senderClosed, needRead, items, task, ioTask>>
     ELSE IF eof THEN
        /\ Obs([ev |-> "Poll", ret |-> "none", dr |-> 0, di |-> 0])
        /\ UNCHANGED InnerVars
     ELSE
        /\ needRead' = TRUE /\ task' = TRUE /\ ioTask' = FALSE
        /\ Obs([ev |-> "Poll", ret |-> "pending", dr |-> 0, di |-> WakeIo])
        /\ UNCHANGED <<len, eof, err, senderClosed, items>>
  /\ UNCHANGED <<senderAlive, readerAlive>>

Unread == \E n \in {1} :
  /\ readerAlive
  /\ Op([op |-> "Unread", id |-> nid, n |-> n]) /\ Fresh
  /\ len' = len + n /\ items' = <<<<nid, n>>>> \o items
  /\ Obs([ev |-> "Unread", id |-> nid, n |-> n, dr |-> 0, di |-> 0])
  /\ UNCHANGED <<eof, err, senderClosed, needRead, task, ioTask, senderAlive, readerAlive>>

DropReader ==
  /\ readerAlive
  /\ Op([op |-> "DropReader"]) /\ Same
  /\ readerAlive' = FALSE
  /\ Obs([ev |-> "DropReader", dr |-> 0, di |-> 0])
  /\ UNCHANGED <<InnerVars, senderAlive>>

Init == /\ len = 0 /\ eof = StartEof /\ err = NoErr /\ senderClosed = StartEof /\ needRead = TRUE /\ items = <<>>
        /\ task = FALSE /\ ioTask = FALSE /\ senderAlive = TRUE /\ readerAlive = TRUE
        /\ rs = (IF StartEof THEN RefInitEof ELSE RefInit) /\ steps = 0 /\ hist = <<>> /\ nid = 1 /\ lastT = <<"none", FALSE, FALSE>>
Next == FeedData \/ FeedEof \/ SetError \/ DropSender \/ NeedRead \/ Poll \/ Unread \/ DropReader
vars == <<len, eof, err, senderClosed, needRead, items, task, ioTask, senderAlive, readerAlive, rs, steps, hist, nid, lastT>>
Spec == Init /\ [][Next]_vars

RefAccepts == rs.tag = "ok"
(* abstraction: the monitor's queue is the model's item list while both sides are alive *)
Abstraction == (rs.tag = "ok" /\ readerAlive) => (rs.q = items /\ len = SumQ(items))
(* a parked reader always has its waker stored: the structural reason for ReaderWake *)
ParkedReaderRegistered == (rs.tag = "ok" /\ rs.waitR /\ readerAlive) => task
ParkedFeederRegistered == (rs.tag = "ok" /\ rs.waitF /\ readerAlive) => ioTask
(* the inductive invariant of the abstraction PayloadInd (shown inductive by Apalache for histories of any length), read on this
   model's state: every reachable state here maps into it *)
IndMapped == rs.tag = "ok" =>
  /\ len >= Len(items) /\ (items = <<>> => len = 0)
  /\ (readerAlive /\ rs.waitR) => task
  /\ (readerAlive /\ rs.waitF) => ioTask
  /\ readerAlive => (eof = rs.eof)
  /\ (readerAlive /\ err # NoErr) => rs.errs # {}
  /\ (readerAlive /\ rs.errs # {} /\ ~rs.ended) => err # NoErr
  /\ (readerAlive /\ rs.waitR) => (~eof /\ err = NoErr)
  /\ (eof \/ err # NoErr) => senderClosed
Emit == steps > 0 => PrintT(<<"CASE", ToJson([eof |-> StartEof, ops |-> hist])>>)
View == <<len, eof, err, senderClosed, needRead, items, task, ioTask, senderAlive, readerAlive, rs, nid, steps, lastT>>
=================================================================================
