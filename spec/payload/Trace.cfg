SPECIFICATION Spec
CONSTANT LIM = 32768
CHECK_DEADLOCK FALSE
