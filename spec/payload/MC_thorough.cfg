SPECIFICATION Spec
CONSTANTS
  LIM = 10
  Sizes = {1, 9, 10, 11}
  MaxSteps = 6
  Errs = {"overflow", "corrupt"}
  StartEof = FALSE
INVARIANTS RefAccepts Abstraction ParkedReaderRegistered ParkedFeederRegistered IndMapped Emit
VIEW View
CHECK_DEADLOCK FALSE
