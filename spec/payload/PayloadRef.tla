-------------------------------- MODULE PayloadRef --------------------------------
(* Property-level specification of C07 (request-body channel), as a deterministic    *)
(* monitor over the calls of the public h1::Payload / PayloadSender pair.            *)
(*   - bytes: what the reader gets is exactly the fed byte stream, in order           *)
(*     (chunking-agnostic: a returned chunk is a list of runs <<chunk id, n>>)        *)
(*   - truthful ending: None only after feed_eof and after all bytes; Err(e) only     *)
(*     for an e that was set (or "incomplete" after the sender vanished), and only    *)
(*     after all bytes                                                                *)
(*   - wake-ups: a reader that saw Pending is woken by the next data/eof/error/       *)
(*     sender drop; a feeder told to pause is woken once the reader has drained      *)
(*     below LIM.  Spurious wakes are allowed, missing ones are not.                 *)
(* Every event carries dr / di: number of wake() calls on the reader's / feeder's    *)
(* waker during that call.                                                           *)
EXTENDS Integers, Sequences, FiniteSets, TLC
CONSTANT LIM

Rej(sig, clause) == [tag |-> "rej", sig |-> sig, clause |-> clause]
Expect(c, ok, sig, clause) == IF c THEN ok ELSE Rej(sig, clause)

RefInit == [tag |-> "ok", q |-> <<>>, eof |-> FALSE, errs |-> {}, closed |-> FALSE, ended |-> FALSE,
            waitR |-> FALSE, waitF |-> FALSE, readerGone |-> FALSE]
(* Payload::create(true): born with the end already signalled *)
RefInitEof == [RefInit EXCEPT !.eof = TRUE, !.closed = TRUE]

SumQ(q) == LET F[i \in 0..Len(q)] == IF i = 0 THEN 0 ELSE F[i-1] + q[i][2] IN F[Len(q)]

(* remove the runs from the front of the queue; ok = FALSE if they are not a prefix of it *)
RECURSIVE Consume(_, _)
Consume(q, runs) ==
  IF runs = <<>> THEN [ok |-> TRUE, q |-> q]
  ELSE IF q = <<>> THEN [ok |-> FALSE, q |-> <<>>]
  ELSE LET r == Head(runs) h == Head(q) IN
       IF r[1] # h[1] \/ r[2] > h[2] \/ r[2] < 1 THEN [ok |-> FALSE, q |-> <<>>]
       ELSE Consume(IF r[2] = h[2] THEN Tail(q) ELSE <<<<h[1], h[2] - r[2]>>>> \o Tail(q), Tail(runs))
ConsumeOk(q, runs) == runs # <<>> /\ Consume(q, runs).ok

(* a notification of the parked reader is due *)
NotifyR(rs, e, s, what) ==
  IF rs.waitR /\ ~rs.readerGone
  THEN Expect(e.dr > 0, [s EXCEPT !.waitR = FALSE], what \o "/reader-not-woken", "ReaderWake")
  ELSE s

RefStep0(rs, e) ==
  CASE e.ev = "FeedData" ->
         IF rs.readerGone THEN rs
         ELSE NotifyR(rs, e, [rs EXCEPT !.q = Append(@, <<e.id, e.n>>)], "FeedData")
    [] e.ev = "FeedEof" ->
         IF rs.readerGone THEN rs
         ELSE NotifyR(rs, e, [rs EXCEPT !.eof = TRUE, !.closed = TRUE], "FeedEof")
    [] e.ev = "SetError" ->
         IF rs.readerGone THEN rs
         ELSE NotifyR(rs, e, [rs EXCEPT !.errs = @ \cup {e.e}, !.closed = TRUE], "SetError")
    [] e.ev = "DropSender" ->
         IF rs.readerGone \/ rs.closed THEN rs
         ELSE NotifyR(rs, e, [rs EXCEPT !.errs = @ \cup {"incomplete"}, !.closed = TRUE], "DropSender")
    [] e.ev = "Unread" -> [rs EXCEPT !.q = <<<<e.id, e.n>>>> \o @]
    [] e.ev = "DropReader" -> [rs EXCEPT !.readerGone = TRUE, !.waitR = FALSE]
    [] e.ev = "NeedRead" ->
         Expect((e.ret = "dropped") <=> rs.readerGone,
                \* back-pressure is truthful: the feeder is told to pause only while the limit's worth of data is buffered
                Expect(e.ret # "pause" \/ SumQ(rs.q) >= LIM, [rs EXCEPT !.waitF = (e.ret = "pause")], "NeedRead/pause-below-limit", "Status"),
                "NeedRead/dropped-status", "Status")
    [] e.ev = "Poll" ->
         LET afterF(s) ==      \* the reader made progress: a paused feeder must hear about it once below LIM
               IF rs.waitF /\ SumQ(s.q) < LIM
               THEN Expect(e.di > 0, [s EXCEPT !.waitF = FALSE], "Poll/feeder-not-woken", "FeederWake")
               ELSE s
         IN
         IF rs.q # <<>> THEN
              Expect(e.ret = "chunk" /\ ConsumeOk(rs.q, e.runs),
                     afterF([rs EXCEPT !.q = Consume(rs.q, e.runs).q, !.waitR = FALSE]),
                     IF e.ret = "chunk" THEN "Poll/wrong-bytes" ELSE "Poll/" \o e.ret \o "-before-buffered-bytes", "PrefixExact")
         ELSE IF rs.ended THEN
              \* after the ending was reported the stream is finished; only data is impossible
              Expect(e.ret # "chunk", [rs EXCEPT !.waitR = FALSE], "Poll/chunk-after-end", "PrefixExact")
         ELSE IF e.ret = "chunk" THEN Rej("Poll/bytes-never-fed", "PrefixExact")
         ELSE IF e.ret = "none" THEN
              Expect(rs.eof, [rs EXCEPT !.ended = TRUE, !.waitR = FALSE],
                     IF rs.errs # {} THEN "Poll/clean-end-hides-error" ELSE "Poll/clean-end-without-eof", "TruthfulEnd")
         ELSE IF e.ret = "err" THEN
              Expect(e.e \in rs.errs, [rs EXCEPT !.ended = TRUE, !.waitR = FALSE], "Poll/error-never-set", "TruthfulEnd")
         ELSE \* pending
              Expect(~rs.eof /\ rs.errs = {},
                     afterF([rs EXCEPT !.waitR = TRUE]),
                     IF rs.eof THEN "Poll/pending-after-eof" ELSE "Poll/pending-with-error-set", "TruthfulEnd")
    [] e.ev = "Panic" -> Rej("panic", "NoPanic")
    [] OTHER -> Rej("unknown-event", "Alphabet")

(* whoever was notified during the call (even spuriously) is no longer parked *)
RefStep(rs, e) ==
  LET n == RefStep0(rs, e) IN
  IF n.tag = "rej" THEN n
  ELSE [n EXCEPT !.waitR = IF e.dr > 0 THEN FALSE ELSE @, !.waitF = IF e.di > 0 THEN FALSE ELSE @]
=================================================================================
