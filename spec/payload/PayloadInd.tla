--------------------------------- MODULE PayloadInd ---------------------------------
(* Unbounded-history companion of PayloadMC for the wake-up and truthful-ending clauses  *)
(* of C07, in the fragment Apalache handles: the chunk queue of h1::payload::Inner is     *)
(* abstracted to (number of chunks, total length), error identity to "an error is set",   *)
(* and the PayloadRef monitor to the flags it needs for those clauses:                    *)
(*   waitR  the reader's last poll returned Pending and nothing has notified it since     *)
(*   waitF  the feeder was told to pause and nothing has notified it since                *)
(*   rEof / rErr / rEnded   the monitor's view of eof, "some error was set", "ending       *)
(*                          reported"                                                      *)
(*   ok     the monitor has not rejected                                                  *)
(* IndInv is shown inductive (Init => IndInv; IndInv /\ Next => IndInv') by Apalache,      *)
(* which makes "a parked party always has its waker stored, and is woken by the call that  *)
(* ends its wait" hold for histories of any length, where TLC explores PayloadMC only to a *)
(* depth bound.  Byte-exactness is not representable in this abstraction and stays with    *)
(* PayloadMC / trace validation.                                                           *)
EXTENDS Integers

CONSTANT
  \* @type: Int;
  LIM

VARIABLES
  \* @type: Int;
  len,
  \* @type: Int;
  nitems,
  \* @type: Bool;
  eof,
  \* @type: Bool;
  err,
  \* @type: Bool;
  senderClosed,
  \* @type: Bool;
  needRead,
  \* @type: Bool;
  task,
  \* @type: Bool;
  ioTask,
  \* @type: Bool;
  senderAlive,
  \* @type: Bool;
  readerAlive,
  \* @type: Bool;
  waitR,
  \* @type: Bool;
  waitF,
  \* @type: Bool;
  rEof,
  \* @type: Bool;
  rErr,
  \* @type: Bool;
  rEnded,
  \* @type: Bool;
  ok

ConstInit == LIM \in Int

InnerSame == UNCHANGED <<len, nitems, eof, err, senderClosed, needRead, task, ioTask>>

\* the monitor's NotifyR: a parked reader must be woken by this call (dr > 0 iff a waker was stored)
NotifyOk == (waitR /\ readerAlive) => task

FeedData ==
  \E n \in Int :
    /\ n >= 1 /\ senderAlive
    /\ IF readerAlive
       THEN /\ len' = len + n /\ nitems' = nitems + 1 /\ needRead' = (len + n < LIM) /\ task' = FALSE
            /\ ok' = (ok /\ NotifyOk) /\ waitR' = FALSE
            /\ UNCHANGED <<eof, err, senderClosed, ioTask, waitF, rEof, rErr, rEnded>>
       ELSE /\ InnerSame /\ UNCHANGED <<ok, waitR, waitF, rEof, rErr, rEnded>>
    /\ UNCHANGED <<senderAlive, readerAlive>>

FeedEof ==
  /\ senderAlive
  /\ IF readerAlive
     THEN /\ senderClosed' = TRUE /\ eof' = TRUE /\ task' = FALSE
          /\ ok' = (ok /\ NotifyOk) /\ waitR' = FALSE /\ rEof' = TRUE
          /\ UNCHANGED <<len, nitems, err, needRead, ioTask, waitF, rErr, rEnded>>
     ELSE /\ InnerSame /\ UNCHANGED <<ok, waitR, waitF, rEof, rErr, rEnded>>
  /\ UNCHANGED <<senderAlive, readerAlive>>

SetError ==
  /\ senderAlive
  /\ IF readerAlive
     THEN /\ senderClosed' = TRUE /\ err' = TRUE /\ task' = FALSE
          /\ ok' = (ok /\ NotifyOk) /\ waitR' = FALSE /\ rErr' = TRUE
          /\ UNCHANGED <<len, nitems, eof, needRead, ioTask, waitF, rEof, rEnded>>
     ELSE /\ InnerSame /\ UNCHANGED <<ok, waitR, waitF, rEof, rErr, rEnded>>
  /\ UNCHANGED <<senderAlive, readerAlive>>

DropSender ==
  /\ senderAlive /\ senderAlive' = FALSE
  /\ IF readerAlive /\ ~senderClosed
     THEN /\ senderClosed' = TRUE /\ err' = TRUE /\ task' = FALSE
          /\ ok' = (ok /\ NotifyOk) /\ waitR' = FALSE /\ rErr' = TRUE
          /\ UNCHANGED <<len, nitems, eof, needRead, ioTask, waitF, rEof, rEnded>>
     ELSE /\ InnerSame /\ UNCHANGED <<ok, waitR, waitF, rEof, rErr, rEnded>>
  /\ UNCHANGED readerAlive

NeedRead ==
  /\ senderAlive
  /\ IF ~readerAlive THEN /\ InnerSame /\ waitF' = FALSE
     ELSE IF needRead THEN /\ InnerSame /\ waitF' = FALSE
     ELSE /\ ioTask' = TRUE /\ waitF' = TRUE /\ UNCHANGED <<len, nitems, eof, err, senderClosed, needRead, task>>
  /\ UNCHANGED <<senderAlive, readerAlive, ok, waitR, rEof, rErr, rEnded>>

\* Inner::poll_next
Poll ==
  /\ readerAlive
  /\ IF nitems > 0 THEN
        \E d \in Int :
          /\ d >= 1 /\ d <= len - (nitems - 1)                 \* the front chunk; every remaining chunk has at least one byte
          /\ (nitems = 1 => d = len)
          /\ LET nl == len - d
                 nr == nl < LIM
             IN /\ len' = nl /\ nitems' = nitems - 1 /\ needRead' = nr
                /\ task' = (IF nr /\ ~eof THEN TRUE ELSE task) /\ ioTask' = FALSE
                \* afterF: a paused feeder must hear about it once below LIM (di > 0 iff its waker was stored)
                /\ ok' = (ok /\ ((waitF /\ nl < LIM) => ioTask))
                /\ waitF' = (IF ioTask THEN FALSE ELSE waitF) /\ waitR' = FALSE
                /\ UNCHANGED <<eof, err, senderClosed, rEof, rErr, rEnded>>
     ELSE IF err THEN
        /\ err' = FALSE /\ ok' = (ok /\ (rEnded \/ rErr)) /\ rEnded' = TRUE /\ waitR' = FALSE
        /\ UNCHANGED <<len, nitems, eof, senderClosed, needRead, task, ioTask, waitF, rEof, rErr>>
     ELSE IF eof THEN
        /\ ok' = (ok /\ (rEnded \/ rEof)) /\ rEnded' = TRUE /\ waitR' = FALSE
        /\ InnerSame /\ UNCHANGED <<waitF, rEof, rErr>>
     ELSE
        /\ needRead' = TRUE /\ task' = TRUE /\ ioTask' = FALSE
        \* Pending is only truthful while neither eof nor an error is outstanding (or the ending was already reported)
        /\ ok' = (ok /\ (rEnded \/ (~rEof /\ ~rErr)) /\ ((waitF /\ len < LIM) => ioTask))
        /\ waitR' = TRUE /\ waitF' = (IF ioTask THEN FALSE ELSE waitF)
        /\ UNCHANGED <<len, nitems, eof, err, senderClosed, rEof, rErr, rEnded>>
  /\ UNCHANGED <<senderAlive, readerAlive>>

Unread ==
  /\ readerAlive
  /\ len' = len + 1 /\ nitems' = nitems + 1
  /\ UNCHANGED <<eof, err, senderClosed, needRead, task, ioTask, senderAlive, readerAlive, ok, waitR, waitF, rEof, rErr, rEnded>>

DropReader ==
  /\ readerAlive /\ readerAlive' = FALSE /\ waitR' = FALSE
  /\ InnerSame /\ UNCHANGED <<senderAlive, ok, waitF, rEof, rErr, rEnded>>

Init ==
  /\ LIM >= 1
  /\ len = 0 /\ nitems = 0 /\ eof \in BOOLEAN /\ senderClosed = eof /\ err = FALSE /\ needRead = TRUE
  /\ task = FALSE /\ ioTask = FALSE /\ senderAlive = TRUE /\ readerAlive = TRUE
  /\ waitR = FALSE /\ waitF = FALSE /\ rEof = eof /\ rErr = FALSE /\ rEnded = FALSE /\ ok = TRUE

Next == FeedData \/ FeedEof \/ SetError \/ DropSender \/ NeedRead \/ Poll \/ Unread \/ DropReader

(* ------------------------------- the inductive invariant ------------------------------- *)
IndInv ==
  /\ LIM >= 1
  /\ ok
  /\ len >= 0 /\ nitems >= 0 /\ len >= nitems /\ (nitems = 0 => len = 0)
  /\ (readerAlive /\ waitR) => task                  \* ParkedReaderRegistered
  /\ (readerAlive /\ waitF) => ioTask                \* ParkedFeederRegistered
  /\ readerAlive => (eof = rEof)                     \* a clean end is reported only after feed_eof
  /\ (readerAlive /\ err) => rErr                    \* an error is reported only if one was set
  /\ (readerAlive /\ rErr /\ ~rEnded) => err         \* ... and a set error is not lost before it is reported
  /\ (readerAlive /\ waitR) => (~eof /\ ~err)     \* nobody is left parked once the stream has an ending
  /\ (eof \/ err) => senderClosed

\* for `--init=IndInit --length=1`: any state satisfying the invariant
IndInit ==
  /\ len \in Int /\ nitems \in Int
  /\ eof \in BOOLEAN /\ err \in BOOLEAN /\ senderClosed \in BOOLEAN /\ needRead \in BOOLEAN /\ task \in BOOLEAN /\ ioTask \in BOOLEAN
  /\ senderAlive \in BOOLEAN /\ readerAlive \in BOOLEAN /\ waitR \in BOOLEAN /\ waitF \in BOOLEAN
  /\ rEof \in BOOLEAN /\ rErr \in BOOLEAN /\ rEnded \in BOOLEAN /\ ok \in BOOLEAN
  /\ IndInv
=================================================================================
