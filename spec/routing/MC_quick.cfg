SPECIFICATION Spec
CONSTANT MaxTop = 2
INVARIANTS Sane EmitCase
CHECK_DEADLOCK FALSE
