SPECIFICATION Spec
CONSTANT MaxTop = 3
INVARIANTS Sane EmitCase
CHECK_DEADLOCK FALSE
