---------------------------------- MODULE RoutingRef ----------------------------------
(* Property-level specification of C09 (application routing).  A route table is a tree     *)
(*   Scope    [t |-> "scope", prefix, guard, data, dflt, children]                         *)
(*   Resource [t |-> "res", pat, guard, data, dflt, routes |-> <<[m, id]>>]                 *)
(* (patterns in the element form of PatRef; guard in {"any","GET","POST"}; data = 0 or a   *)
(* tag; dflt = 0 or the id of a default service).  Walk is the reference: depth-first in   *)
(* registration order, first service whose pattern matches the not-yet-matched part of the *)
(* path at a segment boundary and whose guards accept; a matched scope is committed (its   *)
(* children or the nearest enclosing default answer); a matched resource without a route   *)
(* for the method answers 405 (or its default).                                            *)
EXTENDS PatRef

GuardOk(g, m) == g = "any" \/ g = m
Rest(path, nxt) == SubSeq(path, nxt, Len(path))
(* the unique decomposition chosen: captures of a pattern on a path (patterns of the grammar are unambiguous) *)
OneMatch(pat, path, prefix) == CHOOSE m \in Matches(pat, path, prefix) : TRUE
Caps(pat, path, prefix) == CapValues(path, OneMatch(pat, path, prefix))

Result(kind, id, caps, data, status) == [kind |-> kind, id |-> id, caps |-> caps, data |-> data, status |-> status]
DataOf(node, inherited) == IF node.data # 0 THEN node.data ELSE inherited

RouteRes(r, m, caps, data, dflt) ==
  LET ok == {i \in 1..Len(r.routes) : GuardOk(r.routes[i].m, m)} IN
  IF ok # {} THEN LET i == CHOOSE i \in ok : \A j \in ok : i <= j IN Result("handler", r.routes[i].id, caps, data, 200)
  ELSE IF r.dflt # 0 THEN Result("default", r.dflt, caps, data, 200)
  ELSE Result("405", 0, caps, data, 405)

RECURSIVE Walk(_, _, _, _, _, _, _, _)
\* alt = TRUE describes the documented actix behaviour: a nested scope without its own default falls back to the App default
Walk(children, path, m, caps, data, dflt, app, alt) ==
  \* first child (registration order) that matches and whose guard accepts
  LET hits == {i \in 1..Len(children) :
                 LET n == children[i] IN
                 GuardOk(n.guard, m) /\ Matches(IF n.t = "scope" THEN n.prefix ELSE n.pat, path, n.t = "scope") # {}}
  IN IF hits = {} THEN (IF dflt # 0 THEN Result("default", dflt, caps, data, 200) ELSE Result("404", 0, caps, data, 404))
     ELSE LET i == CHOOSE i \in hits : \A j \in hits : i <= j
              n == children[i] IN
          IF n.t = "res" THEN RouteRes(n, m, caps \o Caps(n.pat, path, FALSE), DataOf(n, data), dflt)
          ELSE LET mm == OneMatch(n.prefix, path, TRUE) IN
               Walk(n.children, Rest(path, mm[1]), m, caps \o CapValues(path, mm), DataOf(n, data),
                    IF n.dflt # 0 THEN n.dflt ELSE IF alt THEN app ELSE dflt, app, alt)

RouteInit(e) == [tag |-> "ok", table |-> e.table]
RouteStep(rs, e) ==
  CASE e.ev = "route" ->
         LET w == Walk(rs.table.children, e.path, e.method, <<>>, rs.table.data, rs.table.dflt, rs.table.dflt, FALSE)
             v == Walk(rs.table.children, e.path, e.method, <<>>, rs.table.data, rs.table.dflt, rs.table.dflt, TRUE)
             known == (w.status # v.status \/ w.id # v.id) /\ e.status = v.status /\ (v.kind \in {"404", "405"} \/ e.id = v.id)
         IN
         IF known THEN Rej("C09/Default/nested-scope-falls-back-to-app-default-not-enclosing-scope", "") ELSE
         E(e.status = w.status,
          E(w.kind \in {"404", "405"} \/ (e.id = w.id),
           E(w.kind \in {"404", "405"} \/ e.caps = w.caps,
            E(w.kind \in {"404", "405"} \/ e.data = w.data, rs, "C09/Data/not-the-innermost-registration"),
            "C09/Params/differ-from-the-patterns-on-the-route"),
           "C09/Handler/not-the-first-registered-match"),
          "C09/Status/" \o w.kind \o "-expected")
    [] e.ev = "Panic" -> Rej("C19/Panic", "")
    [] OTHER -> rs
=======================================================================================
