---------------------------------- MODULE RoutingRef ----------------------------------
(* Property-level specification of C09 (application routing).  A route table is a tree     *)
(*   Scope    [t |-> "scope", prefix, guard, hg, data, dflt, children]                     *)
(*   Resource [t |-> "res", pats, guard, hg, data, dflt, routes |-> <<[m, id]>>]            *)
(* (patterns in the element form of PatRef; pats: one or more patterns of one resource;    *)
(* guard in {"any","GET","POST"}; hg: also guarded by a header guard; data = 0 or a        *)
(* tag; dflt = 0 or the id of a default service).  Walk is the reference: depth-first in   *)
(* registration order, first service whose pattern matches the not-yet-matched part of the *)
(* path at a segment boundary and whose guards accept; a matched scope is committed (its   *)
(* children or the nearest enclosing default answer); a matched resource without a route   *)
(* for the method answers 405 (or its default).                                            *)
EXTENDS PatRef

GuardOk(g, m) == g = "any" \/ g = m
\* a service may carry several guards (here: a method guard and a header guard); all of them must accept
NodeGuardsOk(n, m, hx) == GuardOk(n.guard, m) /\ (n.hg => hx)
\* a resource may be registered with several patterns: it matches when one of them does, the first such pattern captures
ResHits(n, path) == {j \in 1..Len(n.pats) : Matches(n.pats[j], path, FALSE) # {}}
ResPat(n, path) == n.pats[CHOOSE j \in ResHits(n, path) : \A k \in ResHits(n, path) : j <= k]
Rest(path, nxt) == SubSeq(path, nxt, Len(path))
(* the unique decomposition chosen: captures of a pattern on a path (patterns of the grammar are unambiguous) *)
OneMatch(pat, path, prefix) == CHOOSE m \in Matches(pat, path, prefix) : TRUE
Caps(pat, path, prefix) == CapValues(path, OneMatch(pat, path, prefix))

\* sdata: what application data resolves to inside the innermost matched scope (seen by that scope's middleware), 0 outside scopes
Result(kind, id, caps, data, status, sdata) == [kind |-> kind, id |-> id, caps |-> caps, data |-> data, status |-> status, sdata |-> sdata]
DataOf(node, inherited) == IF node.data # 0 THEN node.data ELSE inherited

RouteRes(r, m, caps, data, dflt, sd) ==
  LET ok == {i \in 1..Len(r.routes) : GuardOk(r.routes[i].m, m)} IN
  IF ok # {} THEN LET i == CHOOSE i \in ok : \A j \in ok : i <= j IN Result("handler", r.routes[i].id, caps, data, 200, sd)
  ELSE IF r.dflt # 0 THEN Result("default", r.dflt, caps, data, 200, sd)
  ELSE Result("405", 0, caps, data, 405, sd)

RECURSIVE Walk(_, _, _, _, _, _, _, _, _, _)
\* alt = TRUE describes the documented actix behaviour: a nested scope without its own default falls back to the App default
Walk(children, path, m, hx, caps, data, dflt, app, alt, sd) ==
  \* first child (registration order) that matches and whose guard accepts
  LET hits == {i \in 1..Len(children) :
                 LET n == children[i] IN
                 NodeGuardsOk(n, m, hx) /\ (IF n.t = "scope" THEN Matches(n.prefix, path, TRUE) # {} ELSE ResHits(n, path) # {})}
  IN IF hits = {} THEN (IF dflt # 0 THEN Result("default", dflt, caps, data, 200, sd) ELSE Result("404", 0, caps, data, 404, sd))
     ELSE LET i == CHOOSE i \in hits : \A j \in hits : i <= j
              n == children[i] IN
          IF n.t = "res" THEN RouteRes(n, m, caps \o Caps(ResPat(n, path), path, FALSE), DataOf(n, data), dflt, sd)
          ELSE LET mm == OneMatch(n.prefix, path, TRUE) IN
               Walk(n.children, Rest(path, mm[1]), m, hx, caps \o CapValues(path, mm), DataOf(n, data),
                    IF n.dflt # 0 THEN n.dflt ELSE IF alt THEN app ELSE dflt, app, alt, DataOf(n, data))

RouteInit(e) == [tag |-> "ok", table |-> e.table]
RouteStep(rs, e) ==
  CASE e.ev = "route" ->
         LET w == Walk(rs.table.children, e.path, e.method, e.hx, <<>>, rs.table.data, rs.table.dflt, rs.table.dflt, FALSE, 0)
             v == Walk(rs.table.children, e.path, e.method, e.hx, <<>>, rs.table.data, rs.table.dflt, rs.table.dflt, TRUE, 0)
             known == (w.status # v.status \/ w.id # v.id) /\ e.status = v.status /\ (v.kind \in {"404", "405"} \/ e.id = v.id)
         IN
         IF known THEN Rej("C09/Default/nested-scope-falls-back-to-app-default-not-enclosing-scope", "") ELSE
         E(e.status = w.status,
          E(w.kind \in {"404", "405"} \/ (e.id = w.id),
           E(w.kind \in {"404", "405"} \/ e.caps = w.caps,
            E(w.kind \in {"404", "405"} \/ e.data = w.data,
             \* ... also as seen through a ServiceRequest by the middleware of the innermost matched scope
             E(w.kind \in {"404", "405"} \/ e.mw = w.sdata, rs, "C09/Data/middleware-does-not-see-the-innermost-registration"),
             "C09/Data/not-the-innermost-registration"),
            "C09/Params/differ-from-the-patterns-on-the-route"),
           "C09/Handler/not-the-first-registered-match"),
          "C09/Status/" \o w.kind \o "-expected")
    [] e.ev = "Panic" -> Rej("C19/Panic", "")
    [] OTHER -> rs
=======================================================================================
