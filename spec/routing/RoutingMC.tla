----------------------------------- MODULE RoutingMC -----------------------------------
(* Enumeration of route tables (from libraries of scope and resource templates, nested to  *)
(* depth 2) and of the reference walk's case space; every table is printed with the set of  *)
(* request paths to try.  Sanity invariants on the reference: a result is always produced,   *)
(* a 405 only comes from a matched resource, parameters come only from patterns on the route. *)
EXTENDS RoutingRef, Json
CONSTANTS MaxTop
VARIABLES tb

L(s) == [k |-> "lit", s |-> s]
Dyn(n) == [k |-> "dyn", name |-> n]
Tl(n) == [k |-> "tail", name |-> n]
ResX(pats, guard, hg, data, dflt, routes) == [t |-> "res", pats |-> pats, guard |-> guard, hg |-> hg, data |-> data, dflt |-> dflt, routes |-> routes, via |-> "service"]
Res(pat, guard, data, dflt, routes) == ResX(<<pat>>, guard, FALSE, data, dflt, routes)
ScopeX(prefix, guard, hg, data, dflt, children) == [t |-> "scope", prefix |-> prefix, guard |-> guard, hg |-> hg, data |-> data, dflt |-> dflt, children |-> children]
Scope(prefix, guard, data, dflt, children) == ScopeX(prefix, guard, FALSE, data, dflt, children)
R(m, id) == [m |-> m, id |-> id]
\* leaf resources (ids 11..19) usable inside scopes; patterns are relative to the scope
Leaves == <<
  Res(<<L(<<"/", "b">>)>>, "any", 0, 0, <<R("GET", 11)>>),
  Res(<<L(<<"/">>), Dyn("y")>>, "any", 5, 0, <<R("any", 12)>>),
  Res(<<L(<<"/">>), Dyn("y"), L(<<"/", "b">>)>>, "GET", 0, 0, <<R("GET", 13), R("any", 14)>>),
  Res(<<>>, "any", 0, 15, <<R("POST", 16)>>),
  Res(<<L(<<"/">>), Tl("t")>>, "any", 0, 0, <<R("GET", 17)>>),
  \* one resource with two patterns (the second one dynamic); a resource behind two guards
  ResX(<< <<L(<<"/", "1">>)>>, <<L(<<"/">>), Dyn("y"), L(<<"/", "b">>)>> >>, "any", FALSE, 0, 0, <<R("any", 23)>>),
  ResX(<< <<L(<<"/", "b">>)>> >>, "GET", TRUE, 0, 0, <<R("any", 24)>>) >>
Inner == <<
  Scope(<<L(<<"/", "b">>)>>, "any", 6, 0, <<Leaves[1], Leaves[2]>>),
  Scope(<<L(<<"/">>), Dyn("z")>>, "GET", 0, 18, <<Leaves[4]>>) >>
\* top-level nodes
Tops == <<
  Scope(<<L(<<"/", "a">>)>>, "GET", 7, 0, <<Leaves[1], Leaves[2]>>),
  Scope(<<L(<<"/", "a">>)>>, "any", 0, 21, <<Leaves[3], Inner[1]>>),
  Scope(<<L(<<"/">>), Dyn("x")>>, "any", 8, 0, <<Leaves[2], Leaves[4]>>),
  Scope(<<L(<<"/", "a", "/", "b">>)>>, "any", 0, 0, <<Leaves[5]>>),
  Scope(<<>>, "any", 0, 0, <<Leaves[1], Inner[2]>>),
  Res(<<L(<<"/", "a">>)>>, "any", 0, 0, <<R("GET", 1), R("POST", 2)>>),
  Res(<<L(<<"/", "a", "/", "b">>)>>, "POST", 9, 0, <<R("any", 3)>>),
  Res(<<L(<<"/">>), Dyn("p")>>, "any", 0, 22, <<R("GET", 4)>>),
  Res(<<L(<<"/">>), Dyn("p"), L(<<"/">>), Dyn("q")>>, "any", 0, 0, <<R("GET", 5)>>),
  Res(<<L(<<"/">>), Tl("t")>>, "GET", 0, 0, <<R("any", 6)>>),
  Res(<<L(<<"/">>)>>, "any", 0, 0, <<R("GET", 7)>>),
  Scope(<<L(<<"/", "a">>)>>, "any", 0, 0, <<Leaves[6], Leaves[2]>>),
  Scope(<<L(<<"/", "a">>)>>, "any", 0, 0, <<Leaves[7], Leaves[1]>>),
  ScopeX(<<L(<<"/", "a">>)>>, "POST", TRUE, 0, 25, <<Leaves[1]>>),
  ResX(<< <<L(<<"/", "b">>)>>, <<L(<<"/">>), Dyn("p"), L(<<"/", "1">>)>> >>, "any", FALSE, 0, 0, <<R("GET", 8)>>),
  ResX(<< <<L(<<"/", "a">>)>> >>, "GET", TRUE, 0, 0, <<R("any", 9)>>),
  \* cfg.route(path, route): one resource per call, carrying the route's guard (registered through App::configure)
  [ResX(<< <<L(<<"/", "b">>)>> >>, "GET", FALSE, 0, 0, <<R("any", 26)>>) EXCEPT !.via = "cfg"],
  [ResX(<< <<L(<<"/", "b">>)>> >>, "POST", FALSE, 0, 0, <<R("any", 27)>>) EXCEPT !.via = "cfg"],
  [ResX(<< <<L(<<"/", "a">>)>> >>, "POST", TRUE, 0, 0, <<R("any", 28)>>) EXCEPT !.via = "cfg"] >>
Tables == {[children |-> c, data |-> d, dflt |-> df] :
             c \in UNION {{s \in [1..n -> 1..Len(Tops)] : \A i, j \in 1..n : i # j => s[i] # s[j]} : n \in 1..MaxTop},
             d \in {1}, df \in {0, 30}}
Concrete(t) == [children |-> [i \in 1..Len(t.children) |-> Tops[t.children[i]]], data |-> t.data, dflt |-> t.dflt]
Init == tb \in Tables
Next == UNCHANGED tb
Spec == Init /\ [][Next]_tb

Segs == {<<>>, <<"a">>, <<"b">>, <<"1">>, <<"a", "%", "2", "F", "b">>}
ProbePaths == {<<"/">>} \cup {<<"/">> \o s : s \in Segs \ {<<>>}} \cup {<<"/">> \o s1 \o <<"/">> \o s2 : s1 \in Segs \ {<<>>}, s2 \in Segs}
              \cup {<<"/">> \o s1 \o <<"/">> \o s2 \o <<"/">> \o s3 : s1 \in {<<"a">>, <<"1">>}, s2 \in {<<"b">>, <<"1">>}, s3 \in {<<"b">>, <<"a">>, <<>>}}
Sane == \A p \in ProbePaths, m \in {"GET", "POST"}, hx \in BOOLEAN :
          LET w == Walk(Concrete(tb).children, p, m, hx, <<>>, 1, tb.dflt, tb.dflt, FALSE, 0) IN w.status \in {200, 404, 405}
EmitCase == PrintT(<<"CASE", ToJson([table |-> Concrete(tb)])>>)
=======================================================================================
