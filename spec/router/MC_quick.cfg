SPECIFICATION Spec
CONSTANTS
  Alphabet = {"a", "1", "/"}
  MaxLen = 5
  QAlphabet = {"x", "%", "4", "1", "2", "F", "G", "A", "5"}
  QMaxLen = 4
INVARIANTS Sane EmitCase
CHECK_DEADLOCK FALSE
