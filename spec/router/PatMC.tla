------------------------------------ MODULE PatMC ------------------------------------
(* Enumeration of the case space of C10: pattern grammar x prefix/full x all paths over a   *)
(* small alphabet up to a length bound.  Each initial state is one case; TLC evaluates the   *)
(* reference relation on it (sanity properties of the relation itself are invariants) and    *)
(* prints the case for the harness.                                                          *)
EXTENDS PatRef, Json
CONSTANTS Alphabet, MaxLen, QAlphabet, QMaxLen
VARIABLES c

L(s) == [k |-> "lit", s |-> s]
Dyn(n) == [k |-> "dyn", name |-> n]
Dig(n) == [k |-> "dig", name |-> n]
AB(n) == [k |-> "ab", name |-> n]
Grp(n) == [k |-> "grp", name |-> n]
Tl(n) == [k |-> "tail", name |-> n]
Pats == <<
  <<L(<<"/">>)>>, <<L(<<"/", "a">>)>>, <<L(<<"/", "a", "/">>)>>, <<L(<<"/", "a", "/", "b">>)>>, <<L(<<>>)>>,
  <<L(<<"/">>), Dyn("x")>>, <<L(<<"/">>), Dyn("x"), L(<<"/">>)>>, <<L(<<"/">>), Dyn("x"), L(<<"/", "a">>)>>,
  <<L(<<"/">>), Dyn("x"), L(<<"/">>), Dyn("y")>>, <<L(<<"/", "a", "/">>), Dyn("x")>>, <<L(<<"/">>), Dyn("x"), L(<<"a">>)>>,
  <<L(<<"/">>), Dig("n")>>, <<L(<<"/">>), Dig("n"), L(<<"/">>), Dyn("x")>>, <<L(<<"/">>), AB("p"), L(<<"a">>)>>, <<L(<<"/">>), AB("p"), AB("q")>>,
  <<L(<<"/">>), Tl("t")>>, <<L(<<"/", "a">>), Tl("t")>>, <<L(<<"/", "a", "/">>), Tl("t")>>, <<L(<<"/">>), Dyn("x"), L(<<"/">>), Tl("t")>>,
  <<Dyn("x")>>, <<L(<<"/">>), Dyn("x"), L(<<"1">>)>>, <<L(<<"/", "1">>), Dyn("x")>>,
  \* literal text with regex meta characters before / between / after dynamic segments
  <<L(<<"/">>), Dyn("x"), L(<<".", "a">>)>>, <<L(<<"/">>), Dyn("x"), L(<<"+", "1">>)>>, <<L(<<"/", "a", ".">>), Dyn("x")>>,
  <<L(<<"/">>), Dyn("x"), L(<<"(", "a">>), Dyn("y")>>, <<L(<<"/", "a", "*", "1">>)>>, <<L(<<"/">>), Dig("n"), L(<<"?">>)>>,
  \* a custom regex with a capturing group of its own in front of further parameters
  <<L(<<"/">>), Grp("k"), L(<<"/">>), Dyn("x")>>, <<L(<<"/">>), Grp("k"), L(<<"/">>), Dyn("x"), L(<<"/">>), Dig("n")>> >>
HasTail(p) == \E i \in 1..Len(p) : p[i].k = "tail"
Paths == UNION {[1..n -> Alphabet] : n \in 0..MaxLen}
MatchCases == {[kind |-> "match", pats |-> <<Pats[i]>>, prefix |-> pf, path |-> p] : i \in 1..Len(Pats), pf \in BOOLEAN, p \in Paths}
MultiCases == {[kind |-> "match", pats |-> <<Pats[i], Pats[j]>>, prefix |-> FALSE, path |-> p] : i \in {2, 6, 12}, j \in {4, 9, 16}, p \in Paths}
QStrings == UNION {[1..n -> QAlphabet] : n \in 0..QMaxLen}
QuoteCases == {[kind |-> "quote", s |-> s, protected |-> pr] : s \in QStrings, pr \in {<<>>, <<37, 47, 43>>, <<65>>}}
Init == c \in {x \in MatchCases : ~(x.prefix /\ HasTail(x.pats[1]))} \cup MultiCases \cup QuoteCases
Next == UNCHANGED c
Spec == Init /\ [][Next]_c

(* sanity of the reference itself *)
Sane == c.kind = "match" =>
          LET M == MatchesAny(c.pats, c.path, c.prefix) IN
          /\ \A m \in M : m[1] >= 1 /\ m[1] <= Len(c.path) + 1
          /\ (~c.prefix => \A m \in M : m[1] = Len(c.path) + 1)
EmitCase == PrintT(<<"CASE", ToJson(c)>>)
=======================================================================================
