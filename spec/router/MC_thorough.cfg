SPECIFICATION Spec
CONSTANTS
  Alphabet = {"a", "1", "/"}
  MaxLen = 6
  QAlphabet = {"x", "%", "4", "1", "2", "F", "G", "A", "5"}
  QMaxLen = 5
INVARIANTS Sane EmitCase
CHECK_DEADLOCK FALSE
