------------------------------------ MODULE PatRef ------------------------------------
(* Property-level specification of C10 (actix-router patterns) and of the partial          *)
(* percent-decoder, as a relational reference over one-character symbols.                   *)
(* A pattern is a sequence of elements                                                      *)
(*   [k |-> "lit", s |-> <<chars>>]   static text                                           *)
(*   [k |-> "dyn", name]              non-empty run without '/'          ({name})           *)
(*   [k |-> "dig", name]              custom regex [0-9]+                 ({name:[0-9]+})    *)
(*   [k |-> "ab",  name]              custom regex [ab]+                  ({name:[ab]+})     *)
(*   [k |-> "grp", name]              custom regex with its own group     ({name:(a|1)+})    *)
(*   [k |-> "tail", name]             the rest of the path, may be empty  ({name} star)       *)
(* Matches(pat, path, prefix) is the set of all decompositions <<end, caps>> the definition  *)
(* allows; the three ways of asking (is_match, find_match, capture_match_info) must agree    *)
(* with it and with each other.                                                              *)
EXTENDS Integers, Sequences, FiniteSets, TLC

Rej(sig, clause) == [tag |-> "rej", sig |-> sig, clause |-> clause]
E(c, ok, sig) == IF c THEN ok ELSE Rej(sig, "")

Digits == {"0", "1", "2", "3", "4", "5", "6", "7", "8", "9"}
InClass(k, c) == CASE k = "dyn" -> c # "/" [] k = "dig" -> c \in Digits [] k = "ab" -> c \in {"a", "b"} [] k = "grp" -> c \in {"a", "1"} [] OTHER -> FALSE

RECURSIVE MatchFrom(_, _, _, _)
MatchFrom(pat, i, path, pos) ==       \* set of <<next position, captures>>; a capture is <<name, from, to>>
  IF i > Len(pat) THEN {<<pos, <<>>>>}
  ELSE LET el == pat[i] IN
    IF el.k = "lit" THEN
       IF pos + Len(el.s) - 1 <= Len(path) /\ SubSeq(path, pos, pos + Len(el.s) - 1) = el.s
       THEN MatchFrom(pat, i + 1, path, pos + Len(el.s)) ELSE {}
    ELSE IF el.k = "tail" THEN {<<Len(path) + 1, <<<<el.name, pos, Len(path)>>>>>>}
    ELSE UNION { {<<r[1], <<<<el.name, pos, e>>>> \o r[2]>> : r \in MatchFrom(pat, i + 1, path, e + 1)}
                 : e \in {x \in pos..Len(path) : \A j \in pos..x : InClass(el.k, path[j])} }

Boundary(path, nxt, prefix) == IF prefix THEN nxt = Len(path) + 1 \/ path[nxt] = "/" ELSE nxt = Len(path) + 1
Matches(pat, path, prefix) == {m \in MatchFrom(pat, 1, path, 1) : Boundary(path, m[1], prefix)}
MatchesAny(pats, path, prefix) == UNION {Matches(pats[i], path, prefix) : i \in 1..Len(pats)}
CapValues(path, m) == [j \in 1..Len(m[2]) |-> <<m[2][j][1], SubSeq(path, m[2][j][2], m[2][j][3])>>]

(* partial percent-decoding: every valid escape whose byte is not protected is decoded, nothing else changes *)
HexVal == [c \in {"0","1","2","3","4","5","6","7","8","9","a","b","c","d","e","f","A","B","C","D","E","F"} |->
            CASE c = "0" -> 0 [] c = "1" -> 1 [] c = "2" -> 2 [] c = "3" -> 3 [] c = "4" -> 4 [] c = "5" -> 5 [] c = "6" -> 6 [] c = "7" -> 7
              [] c = "8" -> 8 [] c = "9" -> 9 [] c \in {"a", "A"} -> 10 [] c \in {"b", "B"} -> 11 [] c \in {"c", "C"} -> 12
              [] c \in {"d", "D"} -> 13 [] c \in {"e", "E"} -> 14 [] c \in {"f", "F"} -> 15]
IsHex(c) == c \in DOMAIN HexVal
Code(c) == CASE c = "x" -> 120 [] c = "%" -> 37 [] c = "4" -> 52 [] c = "1" -> 49 [] c = "2" -> 50 [] c = "F" -> 70 [] c = "G" -> 71
             [] c = "A" -> 65
             [] c = "f" -> 102 [] c = "/" -> 47 [] c = "+" -> 43 [] c = "5" -> 53 [] c = "0" -> 48 [] c = "e" -> 101 [] c = "E" -> 69 [] c = "b" -> 98
RECURSIVE Decode(_, _, _)
Decode(s, i, protected) ==        \* sequence of byte values; plain symbols are reported by their code given in the event
  IF i > Len(s) THEN <<>>
  ELSE IF s[i] = "%" /\ i + 2 <= Len(s) /\ IsHex(s[i+1]) /\ IsHex(s[i+2]) /\ (HexVal[s[i+1]] * 16 + HexVal[s[i+2]]) \notin protected
       THEN <<HexVal[s[i+1]] * 16 + HexVal[s[i+2]]>> \o Decode(s, i + 3, protected)
       ELSE <<Code(s[i])>> \o Decode(s, i + 1, protected)

RefInit == [tag |-> "ok"]
RefStep(rs, e) ==
  CASE e.ev = "match" ->
         LET M == MatchesAny(e.pats, e.path, e.prefix) IN
         E(e.is_match = (M # {}),
          E((e.find = -1) = (M = {}) /\ (e.find # -1 => \E m \in M : m[1] - 1 = e.find),
           E(e.cap_ok = (M # {}),
            E(~e.cap_ok \/ (\E m \in M : m[1] - 1 = e.cap_len /\ CapValues(e.path, m) = e.caps),
             E(~e.cap_ok \/ e.cap_len = e.find,
              E(~e.cap_ok \/ Len(e.pats) > 1 \/ e.rt_ok, rs, "C10/Build/round-trip-differs"),
              "C10/Agree/capture-length-differs-from-find_match"),
             "C10/Capture/values-are-not-the-matched-substrings"),
            IF e.cap_ok THEN "C10/Capture/matches-outside-the-language" ELSE "C10/Capture/misses-a-match"),
           IF e.find # -1 /\ M = {} THEN "C10/Find/matches-outside-the-language"
           ELSE IF e.find = -1 THEN "C10/Find/misses-a-match" ELSE "C10/Find/length-is-not-a-valid-match-end"),
          IF e.is_match THEN "C10/IsMatch/matches-outside-the-language" ELSE "C10/IsMatch/misses-a-match")
    [] e.ev = "quote" ->
         E(e.out = Decode(e.s, 1, {e.protected[i] : i \in 1..Len(e.protected)}),
           \* Url::path(): the same decoding (default protected set), then UTF-8 with replacement characters (compared by the harness)
           E(e.url_ok, rs, "C10/Quoter/url-path-is-not-the-decoded-text"),
           "C10/Quoter/decoding-differs")
    [] e.ev = "longmatch" ->   \* long paths: the generator joined known segments, the harness compared with them
         E(e.is_match /\ e.find_ok /\ e.cap_ok /\ e.caps_ok, rs, "C10/Long/capture-or-length-wrong-on-a-long-path")
    [] e.ev = "Panic" -> Rej("C19/Panic", "")
    [] OTHER -> rs
=======================================================================================
