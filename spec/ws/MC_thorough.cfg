SPECIFICATION Spec
CONSTANTS
  NF = 3
  Ops = {0, 1, 2, 8, 9}
  Lens = {2, 126, 300}
  Roles = {"server", "client"}
  MaxSize = 200
  Cuts = TRUE
  DEV_MaxAfterBuffer = FALSE
  DEV_CloseMorph = TRUE
  KnownSigs = {"C14/Accept/control-too-long/close"}
INVARIANTS RefAccepts EmitCase
VIEW View
CHECK_DEADLOCK FALSE
