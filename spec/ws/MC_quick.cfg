SPECIFICATION Spec
CONSTANTS
  NF = 2
  Ops = {0, 1, 2, 3, 8, 9, 10}
  Lens = {0, 125, 126, 300}
  Roles = {"server", "client"}
  MaxSize = 200
  Cuts = TRUE
  DEV_MaxAfterBuffer = FALSE
  DEV_CloseMorph = TRUE
  KnownSigs = {"C14/Accept/control-too-long/close"}
INVARIANTS RefAccepts EmitCase
VIEW View
CHECK_DEADLOCK FALSE
