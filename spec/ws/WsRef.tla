------------------------------------ MODULE WsRef ------------------------------------
(* Property-level specification of C14 (WebSocket frame codec and handshake) as a        *)
(* monitor over the observations of a decoding endpoint:                                 *)
(*   Reset{role, max, frames}   ground truth: the frames the peer put on the wire, each  *)
(*        [fin, op (0..15), masked, len, hdr (header length), start, end] (byte offsets)  *)
(*   Feed{n}                    n more bytes are in the decode buffer                     *)
(*   Frame{fin, op, len, ok}    the decoder delivered a frame (ok: payload = original)    *)
(*   Err{kind}                  the decoder reported a protocol error (stream is dead)    *)
(*   Round{buffered}            a decode round ended with "need more data"               *)
(*   Enc{ok}, Handshake{...}    encoder / handshake observations (function-like)          *)
(* RFC 6455 5.2-5.5 and the statement of C14 decide, frame by frame, Accept or Reject.    *)
EXTENDS Integers, Sequences, FiniteSets, TLC

Rej(sig, clause) == [tag |-> "rej", sig |-> sig, clause |-> clause]
E(c, ok, sig) == IF c THEN ok ELSE Rej(sig, "")

RefInit(e) == [tag |-> "ok", role |-> e.role, max |-> e.max, frames |-> e.frames, nxt |-> 1, cont |-> FALSE, fed |-> 0, dead |-> FALSE,
               total |-> e.total]

IsControl(op) == op >= 8
Reserved(op) == op \in {3, 4, 5, 6, 7, 11, 12, 13, 14, 15}
(* verdict for frame f given the continuation state: "ok" or the class of the violation *)
Verdict(rs, f) ==
  IF (rs.role = "server") # f.masked THEN "mask"
  ELSE IF Reserved(f.op) THEN "opcode"
  ELSE IF f.len > rs.max THEN "size"
  ELSE IF IsControl(f.op) /\ f.len > 125 THEN "control-too-long"
  ELSE IF IsControl(f.op) /\ ~f.fin THEN "fragmented-control"
  ELSE IF f.op = 0 /\ ~rs.cont THEN "continuation-without-start"
  ELSE IF f.op \in {1, 2} /\ ~f.fin /\ rs.cont THEN "start-inside-fragmented-message"
  ELSE "ok"
(* a complete Text/Binary frame inside a fragmented message: RFC-illegal, not named by C14: either outcome accepted *)
Unspecified(rs, f) == f.op \in {1, 2} /\ f.fin /\ rs.cont
NextCont(rs, f) == IF f.op \in {1, 2} /\ ~f.fin THEN TRUE ELSE IF f.op = 0 /\ f.fin THEN FALSE ELSE rs.cont
HeaderDecidable(v) == v \in {"mask", "opcode", "size"}
HasNext(rs) == rs.nxt <= Len(rs.frames)
Nxt(rs) == rs.frames[rs.nxt]

OnFrame(rs, e) ==
  E(~rs.dead /\ HasNext(rs), 
    LET f == Nxt(rs) v == Verdict(rs, f) IN
    E(rs.fed >= f.end,
     E(v = "ok" \/ Unspecified(rs, f),
      E(e.fin = f.fin /\ e.op = f.op /\ e.len = f.len /\ e.ok,
        [rs EXCEPT !.nxt = @ + 1, !.cont = NextCont(rs, f)],
        "C14/Frame/differs-from-what-was-sent"),
      "C14/Accept/" \o v \o (IF f.op = 8 THEN "/close" ELSE "")),
     "C14/Frame/delivered-before-complete"),
    "C14/Frame/after-error-or-end")

OnErr(rs, e) ==
  E(~rs.dead /\ HasNext(rs),
    LET f == Nxt(rs) v == Verdict(rs, f) IN
    E(v # "ok" \/ Unspecified(rs, f),
      \* an error may be raised once the offending part of the frame has arrived
      E(rs.fed >= f.start + 2, [rs EXCEPT !.dead = TRUE], "C14/Err/before-frame-arrived"),
      "C14/Err/valid-frame-rejected/" \o e.kind),
    "C14/Err/nothing-to-reject")

(* end of a decode round: what is complete must have been decided; an oversized frame must not be buffered *)
OnRound(rs, e) ==
  IF rs.dead \/ ~HasNext(rs) THEN rs
  ELSE LET f == Nxt(rs) v == Verdict(rs, f) IN
       E(rs.fed < f.end, 
        E(~(v = "size" /\ rs.fed >= f.start + f.hdr),
          rs,
          "C14/MaxSize/oversized-frame-buffered-instead-of-refused"),
        IF v = "ok" THEN "C14/SegIndep/complete-frame-not-delivered" ELSE "C14/Reject/illegal-frame-not-rejected/" \o v)

HandshakeOk(h) == h.get /\ h.upgrade_ws /\ h.conn_upgrade /\ h.version_ok /\ h.has_key
OnHandshake(rs, e) ==
  E(e.accepted = HandshakeOk(e),
    E(~e.accepted \/ e.accept_ok, rs, "C14/Handshake/wrong-accept-key"),
    IF e.accepted THEN "C14/Handshake/accepted-malformed-request" ELSE "C14/Handshake/refused-well-formed-request")

RefStep(rs, e) ==
  CASE e.ev = "Feed"  -> [rs EXCEPT !.fed = @ + e.n]
    [] e.ev = "Frame" -> OnFrame(rs, e)
    [] e.ev = "Err"   -> OnErr(rs, e)
    [] e.ev = "Round" -> OnRound(rs, e)
    [] e.ev = "Enc"   -> E(e.ok, rs, "C14/RoundTrip/encoded-frame-differs-from-message")
    [] e.ev = "Handshake" -> OnHandshake(rs, e)
    [] e.ev = "Panic" -> Rej("C19/Panic", "")
    [] OTHER -> rs
=======================================================================================
