----------------------------------- MODULE WsCodec -----------------------------------
(* Implementation-shaped model of actix-http/src/ws/{frame.rs, codec.rs}: Parser::parse  *)
(* (metadata, length check, wait for the whole frame, control-frame rules) and            *)
(* Codec::decode (continuation flag), stepped over a byte stream of 1-3 frames that the   *)
(* environment delivers under every segmentation.  Lengths are abstract classes mapped to *)
(* concrete sizes by the harness: 0, 1, 125, 126, 65535, 65536 and MAX-1, MAX, MAX+1.      *)
(* Each step emits the decoder's observation to WsRef; DEV_* reproduce pinned behaviour.  *)
EXTENDS WsRef, Json
CONSTANTS NF, Ops, Lens, Roles, MaxSize, Cuts,
          DEV_MaxAfterBuffer,      \* the size check happens only after the whole frame is buffered (pinned tree)
          DEV_CloseMorph,          \* a Close frame longer than 125 bytes is delivered as Close(None) instead of an error
          KnownSigs
VARIABLES role, frames, fedTo, pos, cflag, dead, rs, hist, pc

HdrLen(len, masked) == 2 + (IF len < 126 THEN 0 ELSE IF len <= 65535 THEN 2 ELSE 8) + (IF masked THEN 4 ELSE 0)
FrameSet == [fin : BOOLEAN, op : Ops, masked : BOOLEAN, len : Lens]
Layout(fs) ==
  LET S[i \in 0..Len(fs)] == IF i = 0 THEN 0 ELSE S[i-1] + HdrLen(fs[i].len, fs[i].masked) + fs[i].len
  IN [i \in 1..Len(fs) |-> [fin |-> fs[i].fin, op |-> fs[i].op, masked |-> fs[i].masked, len |-> fs[i].len,
                            hdr |-> HdrLen(fs[i].len, fs[i].masked), start |-> S[i-1], end |-> S[i]]]
Total(fr) == IF Len(fr) = 0 THEN 0 ELSE fr[Len(fr)].end
Step(r, e) == IF r.tag = "ok" THEN RefStep(r, e) ELSE r

Init ==
  /\ role \in Roles
  /\ \E n \in 1..NF : \E fs \in [1..n -> FrameSet] : frames = Layout(fs)
  /\ fedTo = 0 /\ pos = 1 /\ cflag = FALSE /\ dead = FALSE /\ hist = <<>> /\ pc = "feed"
  /\ rs = RefInit([role |-> role, max |-> MaxSize, frames |-> frames, total |-> Total(frames)])

(* the environment hands over more bytes: up to an interesting boundary of the next frames *)
Boundaries == UNION {{frames[i].start + 1, frames[i].start + 2, frames[i].start + frames[i].hdr - 1, frames[i].start + frames[i].hdr,
                      frames[i].end - 1, frames[i].end} : i \in 1..Len(frames)}
Feed ==
  /\ pc = "feed" /\ ~dead /\ fedTo < Total(frames)
  /\ \E to \in (IF Cuts THEN {b \in Boundaries : b > fedTo /\ b <= Total(frames)} ELSE {Total(frames)}) :
       /\ fedTo' = to /\ hist' = Append(hist, to - fedTo)
       /\ rs' = Step(rs, [ev |-> "Feed", n |-> to - fedTo])
  /\ pc' = "decode" /\ UNCHANGED <<role, frames, pos, cflag, dead>>

(* Parser::parse + Codec::decode on the frame at `pos` with the bytes available *)
Decode ==
  /\ pc = "decode"
  /\ IF pos > Len(frames) \/ dead THEN /\ pc' = "feed" /\ rs' = Step(rs, [ev |-> "Round", buffered |-> 0]) /\ UNCHANGED <<pos, cflag, dead>>
     ELSE
     LET f == frames[pos] avail == fedTo - f.start server == (role = "server") IN
     IF avail < 2 THEN /\ pc' = "feed" /\ rs' = Step(rs, [ev |-> "Round", buffered |-> avail]) /\ UNCHANGED <<pos, cflag, dead>>
     ELSE IF server # f.masked THEN
          /\ dead' = TRUE /\ rs' = Step(rs, [ev |-> "Err", kind |-> "mask"]) /\ pc' = "feed" /\ UNCHANGED <<pos, cflag>>
     ELSE IF f.op \notin {0, 1, 2, 8, 9, 10} THEN
          /\ dead' = TRUE /\ rs' = Step(rs, [ev |-> "Err", kind |-> "opcode"]) /\ pc' = "feed" /\ UNCHANGED <<pos, cflag>>
     ELSE IF avail < f.hdr THEN /\ pc' = "feed" /\ rs' = Step(rs, [ev |-> "Round", buffered |-> avail]) /\ UNCHANGED <<pos, cflag, dead>>
     ELSE IF f.len > MaxSize /\ ~DEV_MaxAfterBuffer /\ fedTo < f.end THEN
          /\ dead' = TRUE /\ rs' = Step(rs, [ev |-> "Err", kind |-> "overflow"]) /\ pc' = "feed" /\ UNCHANGED <<pos, cflag>>
     ELSE IF fedTo < f.end THEN /\ pc' = "feed" /\ rs' = Step(rs, [ev |-> "Round", buffered |-> avail]) /\ UNCHANGED <<pos, cflag, dead>>
     ELSE IF f.len > MaxSize THEN
          /\ dead' = TRUE /\ rs' = Step(rs, [ev |-> "Err", kind |-> "overflow"]) /\ pc' = "feed" /\ UNCHANGED <<pos, cflag>>
     ELSE IF f.op \in {9, 10} /\ f.len > 125 THEN
          /\ dead' = TRUE /\ rs' = Step(rs, [ev |-> "Err", kind |-> "length"]) /\ pc' = "feed" /\ UNCHANGED <<pos, cflag>>
     ELSE IF f.op = 8 /\ f.len > 125 /\ DEV_CloseMorph THEN
          /\ rs' = Step(rs, [ev |-> "Frame", fin |-> TRUE, op |-> 8, len |-> 0, ok |-> TRUE])
          /\ pos' = pos + 1 /\ pc' = "decode" /\ UNCHANGED <<cflag, dead>>
     ELSE IF f.op = 8 /\ f.len > 125 THEN
          /\ dead' = TRUE /\ rs' = Step(rs, [ev |-> "Err", kind |-> "length"]) /\ pc' = "feed" /\ UNCHANGED <<pos, cflag>>
     ELSE \* Codec::decode: continuation rules
     IF ~f.fin THEN
          IF f.op = 0 THEN
               IF cflag THEN /\ rs' = Step(rs, [ev |-> "Frame", fin |-> FALSE, op |-> 0, len |-> f.len, ok |-> TRUE])
                             /\ pos' = pos + 1 /\ pc' = "decode" /\ UNCHANGED <<cflag, dead>>
               ELSE /\ dead' = TRUE /\ rs' = Step(rs, [ev |-> "Err", kind |-> "cont-not-started"]) /\ pc' = "feed" /\ UNCHANGED <<pos, cflag>>
          ELSE IF f.op \in {1, 2} THEN
               IF ~cflag THEN /\ cflag' = TRUE /\ rs' = Step(rs, [ev |-> "Frame", fin |-> FALSE, op |-> f.op, len |-> f.len, ok |-> TRUE])
                              /\ pos' = pos + 1 /\ pc' = "decode" /\ UNCHANGED dead
               ELSE /\ dead' = TRUE /\ rs' = Step(rs, [ev |-> "Err", kind |-> "cont-started"]) /\ pc' = "feed" /\ UNCHANGED <<pos, cflag>>
          ELSE /\ dead' = TRUE /\ rs' = Step(rs, [ev |-> "Err", kind |-> "fragmented-control"]) /\ pc' = "feed" /\ UNCHANGED <<pos, cflag>>
     ELSE IF f.op = 0 THEN
          IF cflag THEN /\ cflag' = FALSE /\ rs' = Step(rs, [ev |-> "Frame", fin |-> TRUE, op |-> 0, len |-> f.len, ok |-> TRUE])
                        /\ pos' = pos + 1 /\ pc' = "decode" /\ UNCHANGED dead
          ELSE /\ dead' = TRUE /\ rs' = Step(rs, [ev |-> "Err", kind |-> "cont-not-started"]) /\ pc' = "feed" /\ UNCHANGED <<pos, cflag>>
     ELSE /\ rs' = Step(rs, [ev |-> "Frame", fin |-> TRUE, op |-> f.op, len |-> f.len, ok |-> TRUE])
          /\ pos' = pos + 1 /\ pc' = "decode" /\ UNCHANGED <<cflag, dead>>
  /\ UNCHANGED <<role, frames, fedTo, hist>>

Next == Feed \/ Decode
Spec == Init /\ [][Next]_<<role, frames, fedTo, pos, cflag, dead, rs, hist, pc>>

RefAccepts == rs.tag = "ok" \/ rs.sig \in KnownSigs
Terminal == pc = "feed" /\ (dead \/ fedTo = Total(frames))
EmitCase == Terminal => PrintT(<<"CASE", ToJson([role |-> role, max |-> MaxSize, frames |-> frames, segs |-> hist])>>)
View == <<role, frames, fedTo, pos, cflag, dead, pc, rs.tag>>
=======================================================================================
