SPECIFICATION Spec
CONSTANTS
  Entries = {"h1-request", "ws-frame", "multipart", "query", "path", "content-disposition", "range", "entity-tag", "accept", "forwarded", "awc-response", "cookie", "content-type", "http-date", "quality"}
  Templates = {1, 2, 3}
  Ops = {"none", "flip", "truncate", "dup-field", "oversize", "set-length", "splice", "delete", "nul", "high-bit"}
  Positions = {"start", "second", "middle", "before-last", "last", "length", "delimiter"}
  Extremes = {"0", "1", "125", "126", "65535", "65536", "2147483648", "9223372036854775808", "18446744073709551615", "18446744073709551616", "-1"}
INVARIANT EmitCase
CHECK_DEADLOCK FALSE
