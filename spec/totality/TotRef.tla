------------------------------------- MODULE TotRef -------------------------------------
(* C19: no peer-controlled input makes the library panic.  One observation per executed     *)
(* mutation plan: which entry point, and whether the call returned (value or error),        *)
(* panicked, or exceeded its step budget.                                                   *)
EXTENDS Integers, Sequences, TLC
Rej(sig, clause) == [tag |-> "rej", sig |-> sig, clause |-> clause]
RefInit == [tag |-> "ok", n |-> 0]
RefStep(rs, e) ==
  CASE e.ev = "tot" -> IF e.outcome \in {"ok", "err"} THEN [rs EXCEPT !.n = @ + 1]
                       ELSE Rej("C19/" \o e.outcome \o "/" \o e.entry, "")
    [] e.ev = "Panic" -> Rej("C19/panic/harness-level", "")
    [] OTHER -> rs
=======================================================================================
