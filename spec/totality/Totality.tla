------------------------------------ MODULE Totality ------------------------------------
(* Mutation-plan generator for C19.  A plan is                                              *)
(*   [entry, template, op, pos, val]                                                        *)
(* entry: a parser entry point of the library; template: index of a valid message of that   *)
(* entry point; op: the structured mutation; pos: an abstract position inside the message   *)
(* (start, second, middle, before-last, last, at a length field, at a delimiter); val: the   *)
(* extreme value written by set-length / the filler of oversize.  TLC enumerates the whole   *)
(* plan space; the harness concretises each plan on real bytes (whole and fragmented).       *)
EXTENDS Integers, Sequences, FiniteSets, TLC, Json
CONSTANTS Entries, Templates, Ops, Positions, Extremes
VARIABLES plan
Init == plan \in [entry : Entries, template : Templates, op : Ops, pos : Positions, val : Extremes]
Next == UNCHANGED plan
Spec == Init /\ [][Next]_plan
\* set-length only makes sense at a length position; other ops ignore val (canonicalised to the first extreme to avoid duplicates)
Canon == (plan.op # "set-length" => plan.val = "0") /\ (plan.op = "set-length" => plan.pos = "length")
EmitCase == Canon => PrintT(<<"CASE", ToJson(plan)>>)
=======================================================================================
