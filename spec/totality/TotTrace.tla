------------------------------------ MODULE TotTrace ------------------------------------
EXTENDS TotRef, Json, IOUtils
VARIABLES l, rs, run
T == ndJsonDeserialize(IOEnv.TRACE)
Init == l = 1 /\ rs = RefInit /\ run = 0
Next ==
  \/ /\ l <= Len(T)
     /\ l' = l + 1
     /\ LET e == T[l] IN
        IF e.ev = "Reset" THEN rs' = RefInit /\ run' = e.run
        ELSE /\ run' = run
             /\ IF rs.tag # "ok" THEN rs' = rs
                ELSE LET n == RefStep(rs, e) IN
                     /\ rs' = n
                     /\ (n.tag = "rej") =>
                          PrintT(<<"REJECT", ToJson([run |-> run, sig |-> n.sig, clause |-> n.clause, l |-> l, ev |-> e])>>)
  \/ /\ l = Len(T) + 1
     /\ PrintT(<<"INFO", ToJson([k |-> "done", events |-> Len(T)])>>)
     /\ l' = l + 1 /\ UNCHANGED <<rs, run>>
Spec == Init /\ [][Next]_<<l, rs, run>>
=======================================================================================
