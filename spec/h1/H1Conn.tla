----------------------------------- MODULE H1Conn -----------------------------------
(* Implementation-shaped model of the HTTP/1 dispatcher (actix-http/src/h1/dispatcher.rs, *)
(* codec.rs, encoder.rs, payload.rs) at the granularity of one action per code block of   *)
(* Dispatcher::poll (DESIGN.md Appendix B).  A poll is the run  idle -> ... -> idle; the   *)
(* environment (client, socket write budget, handler tokens) acts only between polls and  *)
(* wakes the task only through a waker that the previous poll registered (`reg`).         *)
(*                                                                                        *)
(* Bytes are abstracted to units: H(i) request head, B(i) one body unit, E(i) chunked     *)
(* terminator, X(i) a head with malformed framing, C(i) a malformed chunk-size line.      *)
(* Every observable step emits the same event record the Rust harness logs and feeds it   *)
(* to the property monitor H1Ref (RefStep); the checked invariant is that the monitor     *)
(* never rejects (Impl => Ref) and that no stall is possible.                             *)
(* The history of environment actions of every terminal state is emitted as a script     *)
(* that the harness replays against the real dispatcher.                                  *)
(*                                                                                        *)
(* DEV_* constants switch on the deviations the pinned tree had before the fix: commits;  *)
(* with all of them FALSE the model describes the repaired code.                          *)
EXTENDS H1Ref, Json
CONSTANTS N, Methods, Vers, ReqConns, ReqBodies, Pends, Reads, Keeps, RespBodies, RespConns, Statuses,
          BadAt,              \* 0 = no malformed message; i = request i is malformed (class BadKind)
          BadKind,            \* "head" | "chunk"
          Budgets,            \* initial write budgets ( 99 = unlimited )
          HalfClosed, KaOn,
          Expects,            \* subset of BOOLEAN: a request with a body may carry "Expect: 100-continue"
          UpgAt,              \* 0 = none; N = the last request is an upgrade request and an upgrade service is configured
          DEV_CtxShared, DEV_PopIgnoresClose, DEV_UnreadCrossRequest, DEV_ChunkErrIsDisconnect, DEV_304Body, DEV_UpgradeDropsWbuf,
          KnownSigs           \* signatures of recorded (not repaired) findings: the masked form of RefAccepts (DESIGN.md 2.5)

VARIABLES reqs, progs, wire, sock, rbuf, peerEof,
          cpl,        \* codec.payload: 0 none, n > 0 sized remaining, -1 chunked
          lastCtx,    \* codec context as left by the most recent decode / encode
          payload,    \* dispatcher.payload: [i, reader, buf, more]  (i = 0: None)
          drainable, msgs, st, cur, curCtx, hp, sendleft, sendkind, closeAfter, flags, error,
          wbuf, budget, out, result, woken, reg, pc, rs, hist, fedUnits, nresp, b0

vars == <<reqs, progs, wire, sock, rbuf, peerEof, cpl, lastCtx, payload, drainable, msgs, st, cur, curCtx, hp, sendleft,
          sendkind, closeAfter, flags, error, wbuf, budget, out, result, woken, reg, pc, rs, hist, fedUnits, nresp, b0>>

ReqSet  == [m : Methods, ver : Vers, conn : ReqConns, body : ReqBodies, expect : Expects]
ProgSet == [pend : Pends, read : Reads, keep : Keeps, status : Statuses, rbody : RespBodies, rconn : RespConns]
\* body kinds: "none" | "cl" (2 body units, sized) | "ch" (2 body units + terminator, chunked)
BodyUnits(b) == IF b = "none" THEN 0 ELSE 2
\* response bodies: "empty" (Sized 0) | "bytes" (Sized 2, one chunk) | "stream" (2 chunks, chunked)

UnitsOf(i, r, bad) ==
  IF i = UpgAt THEN <<[k |-> "U", i |-> i]>>
  ELSE IF bad = "head" THEN <<[k |-> "X", i |-> i]>>
  ELSE <<[k |-> "H", i |-> i]>> \o
       (IF r.body = "none" THEN <<>>
        ELSE IF bad = "chunk" THEN <<[k |-> "B", i |-> i], [k |-> "C", i |-> i]>>
        ELSE <<[k |-> "B", i |-> i], [k |-> "B", i |-> i]>> \o (IF r.body = "ch" THEN <<[k |-> "E", i |-> i]>> ELSE <<>>))
AllUnits(rq) ==
  LET F[i \in 0..N] == IF i = 0 THEN <<>> ELSE F[i-1] \o UnitsOf(i, rq[i], IF i = BadAt THEN BadKind ELSE "") IN F[N]

(* ground truth in the vocabulary of H1Ref: offsets are unit counts *)
GtOf(rq) ==
  LET len(i) == Len(UnitsOf(i, rq[i], IF i = BadAt THEN BadKind ELSE ""))
      S[i \in 0..N] == IF i = 0 THEN 0 ELSE S[i-1] + len(i)
  IN [i \in 1..N |->
        [m |-> rq[i].m, ver |-> rq[i].ver, conn |-> (IF i = UpgAt THEN "upgrade" ELSE rq[i].conn), expect |-> rq[i].expect,
         blen |-> (IF i = BadAt /\ BadKind = "chunk" THEN 1 ELSE BodyUnits(rq[i].body)), chunked |-> (rq[i].body = "ch"),
         start |-> S[i-1], end |-> S[i], headlen |-> 1, upgrade |-> (i = UpgAt)]]
PfOf(pg) ==
  [i \in 1..N |->
     IF i = UpgAt THEN [status |-> 101, conn |-> "-", kind |-> "empty", sized |-> TRUE, declared |-> 0, total |-> 0, none |-> FALSE,
                        end_err |-> FALSE, read |-> "none", keep |-> "handler", before_empty |-> 0] ELSE
     [status |-> pg[i].status, conn |-> pg[i].rconn, kind |-> pg[i].rbody, sized |-> (pg[i].rbody # "stream"),
      declared |-> (IF pg[i].rbody = "bytes" THEN 2 ELSE 0), total |-> (IF pg[i].rbody = "empty" THEN 0 ELSE 2),
      none |-> FALSE, end_err |-> FALSE, read |-> pg[i].read, keep |-> pg[i].keep, before_empty |-> 0]]
RejOf(rq) ==
  IF BadAt = 0 THEN [at |-> 0, off |-> 0, detect |-> 0, cls |-> "", status |-> 0, kind |-> ""]
  ELSE LET g == GtOf(rq)[BadAt] IN
       [at |-> BadAt, off |-> g.start, detect |-> (IF BadKind = "head" THEN g.start + 1 ELSE g.start + 3),
        cls |-> BadKind, status |-> 400, kind |-> BadKind]
Cfg == [ka_ms |-> (IF KaOn THEN 5000 ELSE 0), head_ms |-> 0, disc_ms |-> 0, half_closed |-> HalfClosed]

\* once the monitor has rejected (a recorded finding, see KnownSigs) it stays rejected
Step(r, e) == IF r.tag = "ok" THEN RefStep(r, e) ELSE r
Emit(e) == rs' = Step(rs, e @@ [t |-> 0])
Env(a) == hist' = Append(hist, a)

NoPayload == [i |-> 0, reader |-> "none", buf |-> 0]
HasPl == payload.i # 0
CtxOf(i) == [head |-> reqs[i].m = "HEAD", ver |-> reqs[i].ver,
             conn |-> (LET c == IF reqs[i].conn = "close" THEN "close"
                                 ELSE IF reqs[i].conn = "keep-alive" THEN "ka"
                                 ELSE IF reqs[i].ver = 10 THEN "close" ELSE "ka"
                       IN IF c = "ka" /\ ~KaOn THEN "close" ELSE c)]

Init ==
  /\ reqs \in [1..N -> ReqSet]
  /\ progs \in [1..N -> ProgSet]
  /\ \A i \in 1..N : /\ (reqs[i].ver = 10 => reqs[i].body # "ch")
                     /\ (reqs[i].body = "none" => progs[i].read = "none" /\ progs[i].keep = "handler")
                     /\ (reqs[i].m = "HEAD" => reqs[i].body = "none")
                     /\ (reqs[i].expect => reqs[i].body # "none" /\ reqs[i].ver = 11 /\ i # BadAt)
                     /\ (i = UpgAt => reqs[i].body = "none" /\ reqs[i].ver = 11 /\ reqs[i].m = "GET" /\ reqs[i].conn = "-" /\ i = N /\ BadAt # i)
  /\ wire = AllUnits(reqs) /\ sock = <<>> /\ rbuf = <<>> /\ peerEof = FALSE
  /\ cpl = 0 /\ lastCtx = [head |-> FALSE, ver |-> 11, conn |-> "close"]
  /\ payload = NoPayload /\ drainable = FALSE /\ msgs = <<>> /\ st = "none" /\ cur = 0
  /\ curCtx = [head |-> FALSE, ver |-> 11, conn |-> "close"] /\ hp = 0 /\ sendleft = 0 /\ sendkind = "" /\ closeAfter = FALSE
  /\ flags = {} /\ error = FALSE /\ wbuf = <<>> /\ budget \in Budgets /\ b0 = budget /\ out = <<>> /\ result = "run"
  /\ woken = TRUE /\ reg = {} /\ pc = "idle" /\ hist = <<>> /\ fedUnits = 0 /\ nresp = 0
  /\ rs = RefInit([gt |-> GtOf(reqs), pf |-> PfOf(progs), cfg |-> Cfg, rej |-> RejOf(reqs), epi |-> FALSE,
                   sock |-> [shutdown |-> "ready", budget |-> -1], total |-> Len(AllUnits(reqs))])

(* ------------------------------- environment ------------------------------- *)
ClientSend ==
  /\ pc = "idle" /\ wire # <<>> /\ result = "run"
  /\ \E k \in 1..Len(wire) :
       /\ sock' = sock \o SubSeq(wire, 1, k) /\ wire' = SubSeq(wire, k + 1, Len(wire))
       /\ fedUnits' = fedUnits + k
       /\ Emit([ev |-> "Feed", n |-> k]) /\ Env([seg |-> k])
  /\ woken' = (woken \/ "rd" \in reg)
  /\ UNCHANGED <<reqs, progs, rbuf, peerEof, cpl, lastCtx, payload, drainable, msgs, st, cur, curCtx, hp, sendleft, sendkind,
                 closeAfter, flags, error, wbuf, budget, out, result, reg, pc, nresp, b0>>
ClientEof ==
  /\ pc = "idle" /\ wire = <<>> /\ ~peerEof /\ result = "run"
  /\ peerEof' = TRUE /\ woken' = (woken \/ "rd" \in reg)
  /\ Emit([ev |-> "Eof"]) /\ Env([eof |-> 1])
  /\ UNCHANGED <<reqs, progs, wire, sock, rbuf, cpl, lastCtx, payload, drainable, msgs, st, cur, curCtx, hp, sendleft, sendkind,
                 closeAfter, flags, error, wbuf, budget, out, result, reg, pc, fedUnits, nresp, b0>>
HandlerTok ==
  /\ pc = "idle" /\ st = "svc" /\ hp > 0 /\ result = "run"
  /\ hp' = hp - 1 /\ woken' = (woken \/ "hnd" \in reg)
  /\ Emit([ev |-> "HTok", i |-> cur]) /\ Env([h |-> cur])
  /\ UNCHANGED <<reqs, progs, wire, sock, rbuf, peerEof, cpl, lastCtx, payload, drainable, msgs, st, cur, curCtx, sendleft, sendkind,
                 closeAfter, flags, error, wbuf, budget, out, result, reg, pc, fedUnits, nresp, b0>>
Writable ==
  /\ pc = "idle" /\ budget = 0 /\ result = "run" /\ wbuf # <<>>
  /\ \E k \in {1, 99} :
       /\ budget' = k /\ Env([w |-> (IF k = 99 THEN -1 ELSE 1)])
  /\ woken' = (woken \/ "wr" \in reg)
  /\ Emit([ev |-> "Writable", k |-> 1])
  /\ UNCHANGED <<reqs, progs, wire, sock, rbuf, peerEof, cpl, lastCtx, payload, drainable, msgs, st, cur, curCtx, hp, sendleft,
                 sendkind, closeAfter, flags, error, wbuf, out, result, reg, pc, fedUnits, nresp, b0>>

(* ------------------------------- one poll, block by block ------------------------------- *)
Same == UNCHANGED <<reqs, progs, wire, peerEof, fedUnits, hist, b0>>

PollStart ==
  /\ pc = "idle" /\ woken /\ result = "run"
  /\ woken' = FALSE /\ reg' = {}
  \* after the hand-off only the upgrade service's future is polled
  /\ pc' = IF st = "upg" THEN "flush" ELSE IF "SHUTDOWN" \in flags THEN "shutdown" ELSE "read"
  /\ Same /\ UNCHANGED <<sock, rbuf, cpl, lastCtx, payload, drainable, msgs, st, cur, curCtx, hp, sendleft, sendkind, closeAfter,
                         flags, error, wbuf, budget, out, result, rs, nresp>>

\* read_available: read until Pending
ReadAvail ==
  /\ pc = "read"
  /\ IF "READ_DISC" \in flags THEN /\ UNCHANGED <<sock, rbuf, flags, reg>>
     ELSE /\ rbuf' = rbuf \o sock /\ sock' = <<>>
          /\ flags' = (IF sock # <<>> /\ ~(HasPl /\ payload.reader = "dropped") THEN flags \ {"FINISHED"} ELSE flags)
                      \cup (IF peerEof THEN {"EOF_SEEN"} ELSE {})
          /\ reg' = IF peerEof THEN reg ELSE reg \cup {"rd"}
  /\ pc' = "request"
  /\ Same /\ UNCHANGED <<cpl, lastCtx, payload, drainable, msgs, st, cur, curCtx, hp, sendleft, sendkind, closeAfter, error,
                         wbuf, budget, out, result, woken, rs, nresp>>

CanRead == "READ_DISC" \notin flags /\ (~HasPl \/ payload.reader = "dropped" \/ payload.buf < 2)

\* what the handler does to the request body when it is polled (consumer program)
Touch(i, pl) ==
  IF pl.i = i THEN
     IF progs[i].read = "all" THEN [pl EXCEPT !.buf = 0]
     ELSE IF progs[i].keep = "drop" THEN [pl EXCEPT !.reader = "dropped", !.buf = 0] ELSE pl
  ELSE pl
\* the handler of request i is ready to respond
HandlerReady(i, pl) == hp = 0 /\ (progs[i].read # "all" \/ pl.i # i)

CloseUnread(pl, queued) ==
  pl.i # 0 /\ ~(pl.reader = "dropped" /\ drainable) /\ (DEV_UnreadCrossRequest \/ ~queued)

\* send_response: encodes the head for request i into wbuf
\* returns a record of the updates
RespHead(i, pl, queued) ==
  LET ctx == IF DEV_CtxShared THEN lastCtx ELSE curCtx
      closeU == CloseUnread(pl, queued)
      p == progs[i]
      want == IF closeU \/ p.rconn = "close" THEN "close" ELSE ctx.conn
      bodiless == ctx.head \/ p.status \in {204, 304}
      hasBody == ~bodiless /\ p.rbody # "empty"
      \* the encoder writes body octets after a 304 head (MessageEncoder::encode picks te from the body size)
      junk == DEV_304Body /\ ~ctx.head /\ p.status = 304 /\ p.rbody # "empty"
      len == IF p.status = 204 THEN "none" ELSE IF p.rbody = "stream" THEN "chunked" ELSE "cl"
      connHdr == IF want = "close" THEN (IF ctx.ver = 11 THEN "close" ELSE "-")
                 ELSE (IF ctx.ver = 10 THEN "keep-alive" ELSE "-")
  IN [unit |-> [k |-> "RH", i |-> i, ver |-> ctx.ver, status |-> p.status, len |-> len,
                cl |-> (IF len = "cl" /\ p.rbody = "bytes" THEN 2 ELSE 0), conn |-> connHdr, last |-> ~hasBody],
      conn |-> want, closeU |-> closeU, hasBody |-> hasBody, junk |-> junk, polls |-> (p.rbody # "empty")]

\* poll_request: the decode loop, one unit per step
Request ==
  /\ pc = "request"
  /\ IF ~CanRead \/ Len(msgs) >= 16 \/ rbuf = <<>> \/ (closeAfter /\ ~HasPl /\ ~DEV_PopIgnoresClose)
     THEN /\ pc' = "response"
          /\ reg' = IF HasPl /\ payload.reader = "alive" /\ payload.buf >= 2 THEN reg \cup {"pl"} ELSE reg
          /\ UNCHANGED <<rbuf, cpl, lastCtx, payload, drainable, msgs, st, cur, curCtx, hp, flags, error, rs, sendleft, sendkind, wbuf, closeAfter>>
     ELSE
     LET u == Head(rbuf) IN
     /\ rbuf' = Tail(rbuf) /\ reg' = reg
     /\ CASE u.k = "H" ->
               LET r == reqs[u.i]
                   pl0 == IF r.body # "none" THEN [i |-> u.i, reader |-> "alive", buf |-> 0] ELSE payload
                   ctx == CtxOf(u.i) IN
               /\ cpl' = (IF r.body = "none" THEN 0 ELSE IF r.body = "ch" THEN -1 ELSE BodyUnits(r.body))
               /\ lastCtx' = ctx
               /\ drainable' = (r.body = "ch")
               /\ IF st = "none"
                  THEN \* handle_request: eager first poll of the service
                       LET pl == Touch(u.i, pl0) IN
                       /\ cur' = u.i /\ curCtx' = ctx /\ hp' = progs[u.i].pend /\ st' = "svc"
                       /\ payload' = pl /\ msgs' = msgs
                       \* ExpectCall resolves at once (default expect service): send_continue, then the service call
                       /\ wbuf' = (IF r.expect THEN Append(wbuf, [k |-> "RI", i |-> u.i, last |-> FALSE]) ELSE wbuf)
                       /\ Emit([ev |-> "Call", i |-> u.i, m |-> r.m, ver |-> r.ver, tok |-> TRUE, hok |-> TRUE])
                       /\ pc' = "request"
                  ELSE /\ msgs' = Append(msgs, u.i) /\ payload' = pl0 /\ pc' = "request"
                       /\ UNCHANGED <<cur, curCtx, hp, st, rs, wbuf>>
               /\ UNCHANGED <<flags, error, sendleft, sendkind, closeAfter>>
          [] u.k = "B" ->
               /\ cpl' = (IF cpl > 0 THEN cpl - 1 ELSE cpl)
               /\ payload' = (IF cpl = 1 THEN NoPayload      \* sized body complete: feed_eof, payload.take()
                              ELSE IF payload.reader = "alive" THEN [payload EXCEPT !.buf = @ + 1] ELSE payload)
               /\ drainable' = (IF cpl = 1 THEN FALSE ELSE drainable)
               /\ pc' = "request"
               /\ UNCHANGED <<lastCtx, msgs, st, cur, curCtx, hp, flags, error, rs, sendleft, sendkind, wbuf, closeAfter>>
          [] u.k = "E" ->
               /\ cpl' = 0 /\ payload' = NoPayload /\ drainable' = FALSE /\ pc' = "request"
               /\ UNCHANGED <<lastCtx, msgs, st, cur, curCtx, hp, flags, error, rs, sendleft, sendkind, wbuf, closeAfter>>
          [] u.k = "U" ->      \* upgradable request and an upgrade service: queued as Upgrade, the decode loop stops
               /\ msgs' = Append(msgs, -101) /\ lastCtx' = CtxOf(u.i) /\ drainable' = FALSE /\ pc' = "response"
               /\ UNCHANGED <<cpl, payload, st, cur, curCtx, hp, flags, error, rs, sendleft, sendkind, wbuf, closeAfter>>
          [] u.k = "X" ->      \* malformed head: queue 400, stop reading
               /\ msgs' = Append(msgs, -400) /\ flags' = flags \cup {"READ_DISC"} /\ error' = TRUE
               /\ payload' = NoPayload /\ pc' = "response"
               /\ UNCHANGED <<cpl, lastCtx, drainable, st, cur, curCtx, hp, rs, sendleft, sendkind, wbuf, closeAfter>>
          [] u.k = "C" ->      \* malformed chunk
               IF DEV_ChunkErrIsDisconnect
               THEN /\ flags' = flags \cup {"READ_DISC", "WRITE_DISC"} /\ payload' = NoPayload /\ error' = TRUE
                    /\ pc' = "response"
                    /\ UNCHANGED <<cpl, lastCtx, drainable, msgs, st, cur, curCtx, hp, rs, sendleft, sendkind, wbuf, closeAfter>>
               ELSE /\ msgs' = Append(msgs, -400) /\ flags' = flags \cup {"READ_DISC"} /\ error' = TRUE
                    /\ payload' = NoPayload /\ pc' = "response"
                    /\ UNCHANGED <<cpl, lastCtx, drainable, st, cur, curCtx, hp, rs, sendleft, sendkind, wbuf, closeAfter>>
  /\ Same /\ UNCHANGED <<sock, budget, out, result, woken, nresp>>

\* poll_response: the single in-flight response state machine
SendHead(i, pl, nextpc) ==
  LET h == RespHead(i, pl, msgs # <<>>) IN
  /\ wbuf' = Append(wbuf, h.unit)
  /\ lastCtx' = [lastCtx EXCEPT !.conn = h.conn]
  /\ closeAfter' = (closeAfter \/ h.conn = "close")
  /\ msgs' = (IF h.conn = "close" /\ ~DEV_PopIgnoresClose THEN <<>> ELSE msgs)
  /\ IF ~h.polls
     THEN /\ st' = "none" /\ sendleft' = 0 /\ sendkind' = ""
          /\ flags' = (IF h.closeU THEN flags \cup {"SHUTDOWN", "FINISHED"} ELSE flags \cup {"FINISHED"})
     ELSE /\ st' = "send" /\ sendleft' = (IF progs[i].rbody = "bytes" THEN 1 ELSE 2)
          /\ sendkind' = (IF h.hasBody THEN progs[i].rbody ELSE IF h.junk THEN "junk" ELSE "skip") /\ flags' = flags
  /\ pc' = nextpc

Response ==
  /\ pc = "response"
  /\ CASE st = "none" /\ msgs # <<>> ->
            LET x == Head(msgs) IN
            IF x = -101 THEN
               \* PollResponse::Upgrade: io, codec, read buffer and write buffer move into the Framed handed to the upgrade
               \* service, which answers 101 through it; whatever was still in the write buffer goes out first
               /\ msgs' = Tail(msgs) /\ st' = "upg" /\ cur' = UpgAt
               /\ wbuf' = Append(IF DEV_UpgradeDropsWbuf THEN <<>> ELSE wbuf,
                                 [k |-> "RH", i |-> UpgAt, ver |-> 11, status |-> 101, len |-> "none", cl |-> 0, conn |-> "upgrade", last |-> TRUE])
               /\ Emit([ev |-> "Call", i |-> UpgAt, m |-> reqs[UpgAt].m, ver |-> 11, tok |-> TRUE, hok |-> TRUE])
               /\ pc' = "flush"
               /\ UNCHANGED <<curCtx, hp, payload, sendleft, sendkind, flags, lastCtx, closeAfter, reg>>
            ELSE IF x = -400 THEN
               /\ wbuf' = Append(wbuf, [k |-> "RH", i |-> 0, ver |-> lastCtx.ver, status |-> 400, len |-> "cl", cl |-> 0,
                                        conn |-> (IF lastCtx.ver = 11 THEN "close" ELSE "-"), last |-> TRUE])
               /\ msgs' = Tail(msgs) /\ flags' = flags \cup {"FINISHED"} /\ closeAfter' = TRUE
               /\ lastCtx' = [lastCtx EXCEPT !.conn = "close"]
               /\ pc' = "response"
               /\ UNCHANGED <<st, cur, curCtx, hp, payload, sendleft, sendkind, rs, reg>>
            ELSE
               LET pl == Touch(x, payload) IN
               /\ msgs' = Tail(msgs) /\ st' = "svc" /\ cur' = x /\ curCtx' = CtxOf(x) /\ hp' = progs[x].pend /\ payload' = pl
               /\ Emit([ev |-> "Call", i |-> x, m |-> reqs[x].m, ver |-> reqs[x].ver, tok |-> TRUE, hok |-> TRUE])
               /\ wbuf' = (IF reqs[x].expect THEN Append(wbuf, [k |-> "RI", i |-> x, last |-> FALSE]) ELSE wbuf)
               /\ pc' = "response"
               /\ UNCHANGED <<flags, sendleft, sendkind, lastCtx, closeAfter, reg>>
       [] st = "none" /\ msgs = <<>> ->
            /\ flags' = (IF ~HasPl /\ lastCtx.conn = "ka" THEN flags \cup {"KEEP_ALIVE"} ELSE flags \ {"KEEP_ALIVE"})
            /\ pc' = "flush"
            /\ UNCHANGED <<msgs, st, cur, curCtx, hp, payload, sendleft, sendkind, wbuf, lastCtx, closeAfter, rs, reg>>
       [] st = "svc" ->
            LET pl == Touch(cur, payload) IN
            /\ payload' = pl
            /\ IF HandlerReady(cur, pl)
               THEN /\ SendHead(cur, pl, "response") /\ UNCHANGED <<reg>>
               ELSE /\ reg' = reg \cup {"hnd"} /\ pc' = "flush"
                    /\ UNCHANGED <<msgs, st, sendleft, sendkind, flags, wbuf, lastCtx, closeAfter>>
            /\ UNCHANGED <<cur, curCtx, hp, rs>>
       [] st = "send" ->
            /\ IF sendleft > 0
               THEN /\ wbuf' = (IF sendkind = "skip" THEN wbuf
                                ELSE IF sendkind = "junk" THEN Append(wbuf, [k |-> "RJ", i |-> cur, last |-> FALSE])
                                ELSE Append(wbuf, [k |-> "RB", i |-> cur, last |-> (sendleft = 1 /\ sendkind = "bytes")]))
                    /\ sendleft' = sendleft - 1 /\ UNCHANGED <<st, flags, sendkind>>
               ELSE /\ wbuf' = (IF sendkind = "stream" THEN Append(wbuf, [k |-> "RE", i |-> cur, last |-> TRUE]) ELSE wbuf)
                    /\ st' = "none" /\ sendleft' = 0 /\ sendkind' = ""
                    /\ flags' = (IF msgs = <<>> /\ CloseUnread(payload, FALSE) THEN flags \cup {"SHUTDOWN", "FINISHED"}
                                 ELSE flags \cup {"FINISHED"})
            /\ pc' = "response"
            /\ UNCHANGED <<msgs, cur, curCtx, hp, payload, lastCtx, closeAfter, rs, reg>>
  /\ Same /\ UNCHANGED <<sock, rbuf, cpl, drainable, error, budget, out, result, woken, nresp>>

\* poll_flush: write as much as the socket takes; every accepted unit is what the client-side parser sees
RespEvent(u, k) ==
  IF u.k = "RH" THEN [ev |-> "Resp", k |-> k, interim |-> FALSE, status |-> u.status, ver |-> u.ver, len |-> u.len, cl |-> u.cl,
                      conn |-> u.conn, i |-> u.i, date |-> 1, ncl |-> (IF u.len = "cl" THEN 1 ELSE 0), nte |-> (IF u.len = "chunked" THEN 1 ELSE 0)]
  ELSE [ev |-> "none"]
InterimEvent(k) == [ev |-> "Resp", k |-> k, interim |-> TRUE, status |-> 100, ver |-> 11, len |-> "none", cl |-> 0, conn |-> "-", i |-> 0,
                    date |-> 0, ncl |-> 0, nte |-> 0, t |-> 0]
Flush ==
  /\ pc = "flush"
  /\ IF wbuf = <<>> \/ "WRITE_DISC" \in flags THEN /\ pc' = "tail" /\ UNCHANGED <<wbuf, budget, out, rs, reg, nresp>>
     ELSE IF budget = 0 THEN /\ reg' = reg \cup {"wr"} /\ pc' = "tail" /\ UNCHANGED <<wbuf, budget, out, rs, nresp>>
     ELSE LET u == Head(wbuf) IN
          /\ wbuf' = Tail(wbuf) /\ out' = Append(out, u)
          /\ budget' = (IF budget < 99 THEN budget - 1 ELSE budget)
          /\ nresp' = (IF u.k = "RH" THEN nresp + 1 ELSE nresp)
          /\ rs' = (LET s1 == IF u.k = "RH" THEN Step(rs, RespEvent(u, nresp + 1) @@ [t |-> 0])
                                  ELSE IF u.k = "RI" THEN Step(rs, InterimEvent(nresp + 1))
                                  ELSE IF u.k = "RJ" THEN Step(rs, [ev |-> "Junk", n |-> 1, k |-> nresp, t |-> 0]) ELSE rs
                        s2 == IF u.last /\ s1.tag = "ok"
                              THEN Step(s1, [ev |-> "RespEnd", k |-> nresp + (IF u.k = "RH" THEN 1 ELSE 0),
                                                n |-> (IF u.k = "RH" THEN 0 ELSE 2), ok |-> TRUE,
                                                how |-> (IF u.k = "RE" THEN "chunked" ELSE IF u.k = "RB" THEN "cl" ELSE
                                                          IF u.len = "cl" THEN "cl" ELSE "nobody"), t |-> 0])
                              ELSE s1
                    IN s2)
          /\ pc' = "flush" /\ reg' = reg
  /\ Same /\ UNCHANGED <<sock, rbuf, cpl, lastCtx, payload, drainable, msgs, st, cur, curCtx, hp, sendleft, sendkind, closeAfter,
                         flags, error, result, woken>>

\* the tail of Dispatcher::poll
Tail_ ==
  /\ pc = "tail"
  /\ IF "WRITE_DISC" \in flags
     THEN /\ result' = "done" /\ Emit([ev |-> "Done", res |-> "ok", kind |-> ""]) /\ UNCHANGED <<flags, woken, payload>>
     ELSE IF st = "upg"
     THEN \* the upgrade service is done once its response is flushed
          IF wbuf = <<>> THEN /\ result' = "done" /\ Emit([ev |-> "Done", res |-> "ok", kind |-> ""]) /\ UNCHANGED <<flags, woken, payload>>
          ELSE UNCHANGED <<result, rs, flags, woken, payload>>
     ELSE
     LET f0 == IF "EOF_SEEN" \in flags /\ rbuf = <<>> THEN flags \cup {"READ_DISC"} ELSE flags
         pl0 == IF "EOF_SEEN" \in flags /\ rbuf = <<>> THEN NoPayload ELSE payload
         f1 == IF "READ_DISC" \in f0 /\ (~HalfClosed \/ st = "none") THEN f0 \cup {"SHUTDOWN"} ELSE f0
         idle == st = "none" /\ wbuf = <<>>
         f2 == IF idle /\ ~error /\ "FINISHED" \in f1 /\ "KEEP_ALIVE" \notin f1 /\ pl0.i = 0
               THEN (f1 \ {"FINISHED"}) \cup {"SHUTDOWN"} ELSE f1
     IN /\ flags' = f2 /\ payload' = pl0
        /\ IF idle /\ error
           THEN /\ result' = "done" /\ Emit([ev |-> "Done", res |-> "err", kind |-> "Parse"]) /\ woken' = woken
           ELSE /\ result' = result /\ rs' = rs
                /\ woken' = (woken \/ "SHUTDOWN" \in f2)    \* self-wake / recursion into the shutdown branch
  /\ pc' = "idle"
  /\ Same /\ UNCHANGED <<sock, rbuf, cpl, lastCtx, drainable, msgs, st, cur, curCtx, hp, sendleft, sendkind, closeAfter, error,
                         wbuf, budget, out, reg, nresp>>

Shutdown ==
  /\ pc = "shutdown"
  /\ IF wbuf # <<>> /\ "WRITE_DISC" \notin flags
     THEN \* flush first
          IF budget = 0 THEN /\ reg' = reg \cup {"wr"} /\ pc' = "idle" /\ UNCHANGED <<wbuf, budget, out, rs, result, nresp>>
          ELSE LET u == Head(wbuf) IN
               /\ wbuf' = Tail(wbuf) /\ out' = Append(out, u) /\ budget' = (IF budget < 99 THEN budget - 1 ELSE budget)
               /\ nresp' = (IF u.k = "RH" THEN nresp + 1 ELSE nresp)
               /\ rs' = (LET s1 == IF u.k = "RH" THEN Step(rs, RespEvent(u, nresp + 1) @@ [t |-> 0])
                                   ELSE IF u.k = "RI" THEN Step(rs, InterimEvent(nresp + 1))
                                   ELSE IF u.k = "RJ" THEN Step(rs, [ev |-> "Junk", n |-> 1, k |-> nresp, t |-> 0]) ELSE rs
                         IN IF u.last /\ s1.tag = "ok"
                            THEN Step(s1, [ev |-> "RespEnd", k |-> nresp + (IF u.k = "RH" THEN 1 ELSE 0), n |-> (IF u.k = "RH" THEN 0 ELSE 2),
                                              ok |-> TRUE, how |-> (IF u.k = "RE" THEN "chunked" ELSE IF u.k = "RB" THEN "cl" ELSE
                                                                      IF u.len = "cl" THEN "cl" ELSE "nobody"), t |-> 0])
                            ELSE s1)
               /\ pc' = "shutdown" /\ UNCHANGED <<reg, result>>
     ELSE /\ result' = "done" /\ pc' = "idle"
          /\ Emit([ev |-> "Done", res |-> "ok", kind |-> ""])
          /\ UNCHANGED <<wbuf, budget, out, reg, nresp>>
  /\ Same /\ UNCHANGED <<sock, rbuf, cpl, lastCtx, payload, drainable, msgs, st, cur, curCtx, hp, sendleft, sendkind, closeAfter,
                         flags, error, woken>>

Next == ClientSend \/ ClientEof \/ HandlerTok \/ Writable \/ PollStart \/ ReadAvail \/ Request \/ Response \/ Flush \/ Tail_ \/ Shutdown
Spec == Init /\ [][Next]_vars

(* ------------------------------- checked ------------------------------- *)
RefAccepts == rs.tag = "ok" \/ rs.sig \in KnownSigs
(* C04 at design level: an idle, unwoken, running connection has nothing it could do *)
WorkPossible ==
  \/ (sock # <<>> /\ st # "upg" /\ "READ_DISC" \notin flags /\ "SHUTDOWN" \notin flags /\ CanRead /\ ~(closeAfter /\ ~HasPl))
  \/ (wbuf # <<>> /\ budget # 0)
  \/ (st = "svc" /\ hp = 0 /\ HandlerReady(cur, Touch(cur, payload)))
  \/ (peerEof /\ st # "upg" /\ "EOF_SEEN" \notin flags /\ "READ_DISC" \notin flags /\ "SHUTDOWN" \notin flags /\ sock = <<>>)
NoStall == (pc = "idle" /\ ~woken /\ result = "run") => ~WorkPossible
(* every byte accepted by the socket was produced exactly once, in order *)
Terminal == pc = "idle" /\ (result = "done" \/ (~woken /\ wire = <<>> /\ peerEof /\ (st # "svc" \/ hp = 0) /\ budget # 0))
EmitScript == Terminal => PrintT(<<"CASE", ToJson([reqs |-> reqs, progs |-> progs, steps |-> hist, budget0 |-> b0,
                                                   bad |-> [at |-> BadAt, kind |-> BadKind], half_closed |-> HalfClosed, ka |-> KaOn, upg |-> UpgAt])>>)
View == <<reqs, progs, wire, sock, rbuf, peerEof, cpl, lastCtx, payload, drainable, msgs, st, cur, curCtx, hp, sendleft, sendkind,
          closeAfter, flags, error, wbuf, budget, out, result, woken, reg, pc, rs.tag>>
=====================================================================================
