----------------------------------- MODULE H1Time -----------------------------------
(* Implementation-shaped model of the timed side of the HTTP/1 dispatcher                 *)
(* (actix-http/src/h1/dispatcher.rs: poll_graceful_shutdown, poll_head_timer,             *)
(* poll_ka_timer, poll_shutdown_timer, the LINGER and SHUTDOWN branches of                *)
(* Dispatcher::poll, the DRAINING branch of poll_response), one action per code block,    *)
(* with discrete virtual time.  It complements H1Conn, which has the full request and     *)
(* response universe but no clock.                                                        *)
(*                                                                                        *)
(* Universe: one or two requests; the head of the first arrives in two halves (so it can  *)
(* be slow), it may carry a one-unit sized body; every response is 200 with an empty      *)
(* body.  The environment feeds units, half-closes, releases the handler, fires the       *)
(* graceful-shutdown signal and lets time pass (Tick), each only while the task is        *)
(* quiescent, which is how the harness drives the real dispatcher.                        *)
(*                                                                                        *)
(* Every observable step emits the event the Rust harness logs, stamped with the model's  *)
(* clock, and feeds it to the property monitor H1Ref; the invariant is that the monitor   *)
(* never rejects.  The environment history of every terminal state is emitted as a script *)
(* and replayed on the real dispatcher under a paused tokio clock.                        *)
EXTENDS H1Ref, Json
CONSTANTS NReqs,        \* set of request counts, subset of {1, 2}
          Bodies,       \* subset of BOOLEAN: request 1 has a body
          Pends,        \* handler of request 1 needs that many tokens (0 or 1)
          Reads,        \* subset of {"all", "none"}
          Keeps,        \* subset of {"handler", "drop"}
          HeadMs, KaMs, DiscMs,   \* sets of timer values in ms (0 = disabled), multiples of TICK
          Shuts,        \* subset of {"ready", "never"}: what poll_shutdown of the socket does
          Graces,       \* subset of BOOLEAN: a graceful-shutdown signal may fire
          Budgets,      \* subset of {0, 99}: 0 = the socket accepts nothing until the environment makes it writable (then: everything)
          Errs,         \* subset of BOOLEAN: the handler of request 1 fails (its answer goes through send_error_response)
          HalfClosed, MaxT, KnownSigs,
          DEV_KaRefire, DEV_HeadRefire, DEV_KaRearmsShutdown, DEV_LingerTimerAfterFlush   \* the two timer defects repaired by fix: commits (FALSE = repaired code)
TICK == 1000

VARIABLES scn, wire, sock, rbuf, peerEof, signalled, now,
          flags, headT, kaT, shutT, sigSeen, lastConn, payload, cpl, msgs, st, cur, hp, wbuf, error,
          result, woken, reg, pc, rs, hist, nresp, budget,
          obs         \* what the model predicts the client sees: response heads and the way the connection task ends
vars == <<scn, wire, sock, rbuf, peerEof, signalled, now, flags, headT, kaT, shutT, sigSeen, lastConn, payload, cpl, msgs, st,
          cur, hp, wbuf, error, result, woken, reg, pc, rs, hist, nresp, budget, obs>>

Scn == [n : NReqs, body : Bodies, pend : Pends, read : Reads, keep : Keeps, head_ms : HeadMs, ka_ms : KaMs, disc_ms : DiscMs,
        shut : Shuts, grace : Graces, err : Errs, b0 : Budgets]

UnitsOf(s) == <<"Ha", "Hb">> \o (IF s.body THEN <<"B">> ELSE <<>>) \o (IF s.n = 2 THEN <<"H2">> ELSE <<>>)
GtOf(s) ==
  LET b == IF s.body THEN 1 ELSE 0
      g1 == [m |-> (IF s.body THEN "POST" ELSE "GET"), ver |-> 11, conn |-> "-", expect |-> FALSE, blen |-> b, chunked |-> FALSE,
             start |-> 0, end |-> 2 + b, headlen |-> 2, upgrade |-> FALSE]
      g2 == [m |-> "GET", ver |-> 11, conn |-> "-", expect |-> FALSE, blen |-> 0, chunked |-> FALSE,
             start |-> 2 + b, end |-> 3 + b, headlen |-> 1, upgrade |-> FALSE]
  IN IF s.n = 2 THEN <<g1, g2>> ELSE <<g1>>
PfOf(s) ==
  LET p(rd, kp) == [status |-> 200, conn |-> "-", kind |-> "empty", sized |-> TRUE, declared |-> 0, total |-> 0, none |-> FALSE,
                    end_err |-> FALSE, read |-> rd, keep |-> kp, before_empty |-> 0]
  IN IF s.n = 2 THEN <<p(s.read, s.keep), p("none", "handler")>> ELSE <<p(s.read, s.keep)>>
CfgOf(s) == [ka_ms |-> s.ka_ms, head_ms |-> s.head_ms, disc_ms |-> s.disc_ms, half_closed |-> HalfClosed]

Step(r, e) == IF r.tag = "ok" THEN RefStep(r, e) ELSE r
Emit(e) == rs' = Step(rs, e @@ [t |-> now])
Env(a) == hist' = Append(hist, a)
NoPl == [i |-> 0, reader |-> "none"]
HasPl == payload.i # 0
KaOn == scn.ka_ms > 0

Init ==
  /\ scn \in Scn
  /\ (~scn.body => scn.read = "none" /\ scn.keep = "handler")
  /\ wire = UnitsOf(scn) /\ sock = <<>> /\ rbuf = <<>> /\ peerEof = FALSE /\ signalled = FALSE /\ now = 0
  /\ flags = {} /\ headT = -1 /\ kaT = -1 /\ shutT = -1 /\ sigSeen = FALSE /\ lastConn = "close"
  /\ payload = NoPl /\ cpl = 0 /\ msgs = <<>> /\ st = "none" /\ cur = 0 /\ hp = 0 /\ wbuf = <<>> /\ error = FALSE
  /\ result = "run" /\ woken = TRUE /\ reg = {} /\ pc = "idle" /\ hist = <<>> /\ nresp = 0 /\ obs = <<>> /\ budget = scn.b0
  /\ rs = RefInit([gt |-> GtOf(scn), pf |-> PfOf(scn), cfg |-> CfgOf(scn),
                   rej |-> [at |-> 0, off |-> 0, detect |-> 0, cls |-> "", status |-> 0, kind |-> ""], epi |-> FALSE,
                   sock |-> [shutdown |-> scn.shut, budget |-> (IF scn.b0 = 99 THEN -1 ELSE 0)], total |-> Len(UnitsOf(scn))])

(* ------------------------------- environment ------------------------------- *)
Quiet == pc = "idle" /\ ~woken /\ result = "run"
DSame == UNCHANGED <<budget, obs, scn, flags, headT, kaT, shutT, sigSeen, lastConn, payload, cpl, msgs, st, cur, wbuf, error, result, reg, pc, nresp>>

ClientSend ==
  /\ Quiet /\ wire # <<>>
  /\ \E k \in 1..Len(wire) :
       /\ sock' = sock \o SubSeq(wire, 1, k) /\ wire' = SubSeq(wire, k + 1, Len(wire))
       /\ Emit([ev |-> "Feed", n |-> k]) /\ Env([seg |-> k])
  /\ woken' = ("rd" \in reg)
  /\ DSame /\ UNCHANGED <<rbuf, peerEof, signalled, now, hp>>
ClientEof ==
  /\ Quiet /\ wire = <<>> /\ ~peerEof
  /\ peerEof' = TRUE /\ woken' = ("rd" \in reg)
  /\ Emit([ev |-> "Eof"]) /\ Env([eof |-> 1])
  /\ DSame /\ UNCHANGED <<wire, sock, rbuf, signalled, now, hp>>
HandlerTok ==
  /\ Quiet /\ st = "svc" /\ hp > 0
  /\ hp' = hp - 1 /\ woken' = ("hnd" \in reg)
  /\ Emit([ev |-> "HTok", i |-> cur]) /\ Env([h |-> cur])
  /\ DSame /\ UNCHANGED <<wire, sock, rbuf, peerEof, signalled, now>>
Signal ==
  /\ Quiet /\ scn.grace /\ ~signalled
  /\ signalled' = TRUE /\ woken' = TRUE       \* the signal future is polled, hence registered, in every poll until it fires
  /\ Emit([ev |-> "Signal"]) /\ Env([sig |-> 1])
  /\ DSame /\ UNCHANGED <<wire, sock, rbuf, peerEof, now, hp>>
Writable ==
  /\ Quiet /\ budget = 0 /\ wbuf # <<>>
  /\ budget' = 99 /\ woken' = ("wr" \in reg)
  /\ Emit([ev |-> "Writable", k |-> -1]) /\ Env([w |-> -1])
  /\ UNCHANGED <<obs, scn, flags, headT, kaT, shutT, sigSeen, lastConn, payload, cpl, msgs, st, cur, wbuf, error, result, reg, pc, nresp,
                 wire, sock, rbuf, peerEof, signalled, now, hp>>
Due(d, t1) == d >= 0 /\ d <= t1
Tick ==
  /\ Quiet /\ now < MaxT
  /\ now' = now + TICK
  /\ woken' = (Due(headT, now') \/ Due(kaT, now') \/ Due(shutT, now'))
  /\ rs' = Step(rs, [ev |-> "Tick", ms |-> TICK, t |-> now'])
  /\ Env([tick |-> TICK])
  /\ DSame /\ UNCHANGED <<wire, sock, rbuf, peerEof, signalled, hp>>

(* ------------------------------- one poll, block by block ------------------------------- *)
Same == UNCHANGED <<scn, wire, peerEof, signalled, now, hist, budget>>
Blocked == budget = 0
Resp200(i, close) == [k |-> "RH", i |-> i, status |-> 200, conn |-> (IF close THEN "close" ELSE "-")]
Resp408 == [k |-> "RH", i |-> 0, status |-> 408, conn |-> "close"]

ObsOf(w) == [j \in 1..Len(w) |-> [s |-> w[j].status, c |-> w[j].conn]]
ObsDone(k) == <<[s |-> 0, c |-> k]>>

\* poll_graceful_shutdown + poll_timers + choice of the branch
PollStart ==
  /\ pc = "idle" /\ woken /\ result = "run"
  /\ woken' = FALSE /\ reg' = {}
  /\ LET grace == signalled /\ ~sigSeen
         f0 == IF grace THEN (flags \ {"KEEP_ALIVE"}) \cup {"DRAINING"} ELSE flags
         ka0 == IF grace THEN -1 ELSE kaT
         \* head timer: 408 and SHUTDOWN, fires once
         headFires == Due(headT, now)
         f1 == IF headFires THEN f0 \cup {"SHUTDOWN", "FINISHED"} ELSE f0
         w1 == IF headFires THEN Append(wbuf, Resp408) ELSE wbuf
         h1 == IF headFires /\ ~DEV_HeadRefire THEN -1 ELSE headT
         \* keep-alive timer: SHUTDOWN, then the disconnect timer or an immediate drop
         kaFires == Due(ka0, now)
         f2 == IF kaFires THEN f1 \cup {"SHUTDOWN"} \cup (IF scn.disc_ms = 0 THEN {"WRITE_DISC"} ELSE {}) ELSE f1
         ka1 == IF kaFires /\ ~DEV_KaRefire THEN -1 ELSE ka0
         \* (a shutdown timer that is already running is kept: DEV_KaRearmsShutdown is the behaviour before that repair)
         sh1 == IF kaFires /\ scn.disc_ms > 0 /\ (shutT < 0 \/ DEV_KaRearmsShutdown) THEN now + scn.disc_ms ELSE shutT
         \* shutdown timer: ends linger, or aborts the connection
         shFires == Due(sh1, now)
         f3 == IF shFires /\ "LINGER" \in f2 THEN (f2 \ {"LINGER"}) \cup {"SHUTDOWN"} ELSE f2
         sh2 == IF shFires /\ "LINGER" \in f2 THEN -1 ELSE sh1
         abort == shFires /\ "LINGER" \notin f2
     IN /\ sigSeen' = (sigSeen \/ grace)
        /\ flags' = f3 /\ kaT' = ka1 /\ headT' = h1 /\ shutT' = sh2 /\ wbuf' = w1
        /\ lastConn' = (IF headFires THEN "close" ELSE lastConn)
        /\ IF abort
           THEN /\ result' = "done" /\ pc' = "idle" /\ Emit([ev |-> "Done", res |-> "err", kind |-> "DisconnectTimeout"])
                /\ obs' = obs \o ObsDone("err:DisconnectTimeout")
           ELSE /\ result' = result /\ rs' = rs /\ obs' = obs
                /\ pc' = IF "LINGER" \in f3 THEN "linger" ELSE IF "SHUTDOWN" \in f3 THEN "shutdown" ELSE "read"
  /\ Same /\ UNCHANGED <<sock, rbuf, payload, cpl, msgs, st, cur, hp, error, nresp>>

\* flush of the write buffer: the socket always accepts; each head that leaves is what the client sees
FlushAll(w, r, k) ==
  LET F[j \in 0..Len(w)] ==
        IF j = 0 THEN r
        ELSE LET u == w[j]
                 r1 == Step(F[j-1], [ev |-> "Resp", k |-> k + j, interim |-> FALSE, status |-> u.status, ver |-> 11, len |-> "cl", cl |-> 0,
                                     conn |-> u.conn, i |-> u.i, date |-> 1, ncl |-> 1, nte |-> 0, t |-> now])
             IN Step(r1, [ev |-> "RespEnd", k |-> k + j, n |-> 0, ok |-> TRUE, how |-> "cl", t |-> now])
  IN F[Len(w)]

\* read_available .. STARTED .. poll_request (the decode loop is one step: the universe is tiny)
ReadAvail ==
  /\ pc = "read"
  /\ LET canRd == "READ_DISC" \notin flags
         rb == IF canRd THEN rbuf \o sock ELSE rbuf
         eof == canRd /\ peerEof
         \* every completed read, the one that reports end of input included, clears FINISHED
         f0 == IF canRd /\ (sock # <<>> \/ peerEof) /\ ~(HasPl /\ payload.reader = "dropped") THEN flags \ {"FINISHED"} ELSE flags
         f1 == IF rb # <<>> /\ "KEEP_ALIVE" \in f0 THEN f0 \ {"KEEP_ALIVE"} ELSE f0
         ka1 == IF rb # <<>> /\ "KEEP_ALIVE" \in f0 THEN -1 ELSE kaT
         f2 == f1 \cup {"STARTED"} \cup (IF eof THEN {"EOF_SEEN"} ELSE {})
         h1 == IF "STARTED" \notin flags /\ scn.head_ms > 0 THEN now + scn.head_ms ELSE headT
     IN /\ rbuf' = rb /\ sock' = (IF canRd THEN <<>> ELSE sock)
        /\ flags' = f2 /\ kaT' = ka1 /\ headT' = h1
        /\ reg' = IF canRd /\ ~peerEof THEN reg \cup {"rd"} ELSE reg
  /\ pc' = "request"
  /\ Same /\ UNCHANGED <<obs, shutT, sigSeen, lastConn, payload, cpl, msgs, st, cur, hp, wbuf, error, result, woken, rs, nresp>>

\* what the handler does with the body when polled
Touch(i, pl) == IF pl.i = i /\ i = 1 /\ scn.read = "none" /\ scn.keep = "drop" THEN [pl EXCEPT !.reader = "dropped"] ELSE pl
HandlerReady(i, pl) == hp = 0 /\ ~(i = 1 /\ scn.read = "all" /\ pl.i = 1)
CloseUnread(pl, queued) == pl.i # 0 /\ ~queued       \* a sized body is never drainable
Draining == "DRAINING" \in flags

\* poll_request: decodes one message per step
Request ==
  /\ pc = "request"
  /\ LET skip == (Draining /\ st = "none") \/ "READ_DISC" \in flags \/ rbuf = <<>>
                 \/ (Head(rbuf) = "Ha" /\ (Len(rbuf) < 2))
     IN IF skip
        THEN \* leaving the decode loop: `should_disconnect` (end of input seen by this poll's read) is acted on before poll_response
             LET eofNow == "EOF_SEEN" \in flags /\ "READ_DISC" \notin flags IN
             /\ pc' = "response"
             /\ flags' = (IF eofNow THEN flags \cup {"READ_DISC"} ELSE flags)
             /\ payload' = (IF eofNow THEN NoPl ELSE payload)
             /\ UNCHANGED <<rbuf, headT, lastConn, cpl, msgs, st, cur, hp, wbuf, rs>>
        ELSE LET u == Head(rbuf) IN
             CASE u \in {"Ha", "H2"} ->
                    LET i == IF u = "Ha" THEN 1 ELSE 2
                        pl0 == IF i = 1 /\ scn.body THEN [i |-> 1, reader |-> "alive"] ELSE payload IN
                    /\ rbuf' = (IF u = "Ha" THEN Tail(Tail(rbuf)) ELSE Tail(rbuf))
                    /\ headT' = -1                                   \* head_timer.clear on every decoded request
                    /\ cpl' = (IF i = 1 /\ scn.body THEN 1 ELSE 0)
                    /\ IF st = "none"
                       THEN \* handle_request: the service is polled at once; a handler that is ready is answered here, before
                            \* anything else in the read buffer (its own body included) is decoded
                            LET pl == Touch(i, pl0)
                                pend == IF i = 1 THEN scn.pend ELSE 0
                                ready == pend = 0 /\ ~(i = 1 /\ scn.read = "all" /\ pl.i = 1)
                                closeU == CloseUnread(pl, msgs # <<>>)
                                close == closeU \/ Draining \/ ~KaOn IN
                            /\ cur' = i /\ hp' = pend /\ payload' = pl /\ msgs' = msgs
                            /\ Emit([ev |-> "Call", i |-> i, m |-> GtOf(scn)[i].m, ver |-> 11, tok |-> TRUE, hok |-> TRUE])
                            /\ IF ready
                               THEN /\ st' = "none" /\ wbuf' = Append(wbuf, Resp200(i, close))
                                    /\ lastConn' = (IF close THEN "close" ELSE "ka")
                                    /\ flags' = (IF closeU
                                                 THEN (IF scn.disc_ms > 0 THEN (flags \ {"KEEP_ALIVE"}) \cup {"LINGER", "FINISHED"}
                                                       ELSE flags \cup {"SHUTDOWN", "FINISHED"})
                                                 ELSE flags \cup {"FINISHED"})
                               ELSE /\ st' = "svc" /\ lastConn' = (IF KaOn THEN "ka" ELSE "close") /\ UNCHANGED <<flags, wbuf>>
                       ELSE /\ msgs' = Append(msgs, i) /\ payload' = pl0 /\ lastConn' = (IF KaOn THEN "ka" ELSE "close")
                            /\ UNCHANGED <<st, cur, hp, rs, flags, wbuf>>
                    /\ pc' = "request"
               [] u = "B" ->
                    /\ rbuf' = Tail(rbuf) /\ cpl' = 0 /\ payload' = NoPl       \* sized body complete: feed_eof, payload.take()
                    /\ pc' = "request"
                    /\ UNCHANGED <<flags, headT, lastConn, msgs, st, cur, hp, wbuf, rs>>
               [] OTHER -> FALSE
  /\ Same /\ UNCHANGED <<obs, sock, kaT, shutT, sigSeen, error, result, woken, reg, nresp>>

\* poll_response, one state-machine step per action
Response ==
  /\ pc = "response"
  /\ CASE st = "none" /\ Draining ->
            /\ msgs' = <<>>
            /\ flags' = (flags \ {"KEEP_ALIVE"}) \cup (IF "LINGER" \in flags THEN {} ELSE {"SHUTDOWN"})
            /\ pc' = "flush"
            /\ UNCHANGED <<st, cur, hp, payload, wbuf, lastConn, kaT, rs, reg, rbuf>>
       [] st = "none" /\ ~Draining /\ msgs # <<>> ->
            LET x == Head(msgs) IN
            /\ msgs' = Tail(msgs) /\ st' = "svc" /\ cur' = x /\ hp' = 0 /\ payload' = Touch(x, payload)
            /\ Emit([ev |-> "Call", i |-> x, m |-> GtOf(scn)[x].m, ver |-> 11, tok |-> TRUE, hok |-> TRUE])
            /\ pc' = "response"
            /\ UNCHANGED <<flags, wbuf, lastConn, kaT, reg, rbuf>>
       [] st = "none" /\ ~Draining /\ msgs = <<>> ->
            \* requests still in the read buffer are decoded now (fix cc080e4); otherwise DoNothing
            IF rbuf # <<>> /\ "READ_DISC" \notin flags /\ ~(Head(rbuf) = "Ha" /\ Len(rbuf) < 2) /\ ~(Head(rbuf) = "B" /\ ~HasPl)
            THEN /\ pc' = "request" /\ UNCHANGED <<msgs, st, cur, hp, payload, flags, wbuf, lastConn, kaT, rs, reg, rbuf>>
            ELSE LET ka == ~HasPl /\ lastConn = "ka"
                     f1 == IF ka THEN flags \cup {"KEEP_ALIVE"} ELSE flags \ {"KEEP_ALIVE"} IN
                 /\ flags' = f1
                 /\ kaT' = (IF {"KEEP_ALIVE", "FINISHED"} \subseteq f1 /\ KaOn THEN now + scn.ka_ms ELSE kaT)
                 /\ pc' = "flush"
                 /\ UNCHANGED <<msgs, st, cur, hp, payload, wbuf, lastConn, rs, reg, rbuf>>
       [] st = "svc" ->
            LET pl == Touch(cur, payload) IN
            /\ payload' = pl
            /\ IF HandlerReady(cur, pl)
               THEN LET closeU == CloseUnread(pl, msgs # <<>>)
                        close == closeU \/ Draining \/ lastConn = "close" IN
                    /\ wbuf' = Append(wbuf, Resp200(cur, close))
                    /\ lastConn' = (IF close THEN "close" ELSE lastConn)
                    /\ st' = "none"
                    /\ flags' = (IF closeU
                                 THEN (IF scn.disc_ms > 0 THEN (flags \ {"KEEP_ALIVE"}) \cup {"LINGER", "FINISHED"}
                                       ELSE flags \cup {"SHUTDOWN", "FINISHED"})
                                 ELSE flags \cup {"FINISHED"})
                    /\ pc' = "response" /\ UNCHANGED <<reg>>
               ELSE /\ reg' = reg \cup {"hnd"} /\ pc' = "flush"
                    /\ UNCHANGED <<wbuf, lastConn, st, flags>>
            /\ UNCHANGED <<msgs, cur, hp, kaT, rs, rbuf>>
  /\ Same /\ UNCHANGED <<obs, sock, cpl, headT, shutT, sigSeen, error, result, woken, nresp>>

Flush ==
  /\ pc = "flush"
  /\ IF "WRITE_DISC" \in flags \/ wbuf = <<>> THEN UNCHANGED <<wbuf, rs, nresp, obs, reg>>
     ELSE IF Blocked THEN /\ reg' = reg \cup {"wr"} /\ Emit([ev |-> "WritePend", n |-> 1]) /\ UNCHANGED <<wbuf, nresp, obs>>
     ELSE /\ rs' = FlushAll(wbuf, rs, nresp) /\ nresp' = nresp + Len(wbuf) /\ wbuf' = <<>> /\ obs' = obs \o ObsOf(wbuf) /\ reg' = reg
  /\ pc' = "tail"
  /\ Same /\ UNCHANGED <<sock, rbuf, flags, headT, kaT, shutT, sigSeen, lastConn, payload, cpl, msgs, st, cur, hp, error, result, woken>>

\* the tail of the normal branch of Dispatcher::poll
Tail_ ==
  /\ pc = "tail"
  /\ IF "WRITE_DISC" \in flags
     THEN /\ result' = "done" /\ Emit([ev |-> "Done", res |-> "ok", kind |-> ""]) /\ UNCHANGED <<flags, woken, payload>>
          /\ obs' = obs \o ObsDone("ok")
     ELSE
     LET f0 == flags
         pl0 == payload
         f1 == IF "READ_DISC" \in f0 /\ (~HalfClosed \/ st = "none") THEN f0 \cup {"SHUTDOWN"} ELSE f0
         idle == st = "none" /\ wbuf = <<>>
         f2 == IF idle /\ "FINISHED" \in f1 /\ "KEEP_ALIVE" \notin f1 /\ pl0.i = 0
               THEN (f1 \ {"FINISHED"}) \cup {"SHUTDOWN"} ELSE f1
     IN /\ flags' = f2 /\ payload' = pl0 /\ result' = result /\ rs' = rs /\ obs' = obs
        /\ woken' = (woken \/ f2 \cap {"SHUTDOWN", "LINGER"} # {})       \* recursion into / self-wake for the other branches
  /\ pc' = "idle"
  /\ Same /\ UNCHANGED <<sock, rbuf, headT, kaT, shutT, sigSeen, lastConn, cpl, msgs, st, cur, hp, wbuf, error, reg, nresp>>

\* the LINGER branch: discard input until the peer closes or the disconnect timer ends it
Linger ==
  /\ pc = "linger"
  /\ IF wbuf # <<>> /\ Blocked
     THEN \* poll_linger: the timer is armed first (DEV_LingerTimerAfterFlush: before that repair), then the flush is pending
          /\ reg' = reg \cup {"wr"} /\ Emit([ev |-> "WritePend", n |-> 1])
          /\ shutT' = (IF shutT >= 0 \/ scn.disc_ms = 0 \/ DEV_LingerTimerAfterFlush THEN shutT ELSE now + scn.disc_ms)
          /\ UNCHANGED <<nresp, wbuf, obs, flags, woken, rbuf, sock>>
     ELSE /\ rs' = FlushAll(wbuf, rs, nresp) /\ nresp' = nresp + Len(wbuf) /\ wbuf' = <<>> /\ obs' = obs \o ObsOf(wbuf)
          /\ IF scn.disc_ms = 0 /\ shutT < 0
             THEN /\ flags' = (flags \ {"LINGER"}) \cup {"SHUTDOWN"} /\ woken' = TRUE /\ UNCHANGED <<shutT, rbuf, sock, reg>>
             ELSE /\ shutT' = (IF shutT >= 0 THEN shutT ELSE now + scn.disc_ms)
                  /\ rbuf' = (IF "READ_DISC" \in flags THEN rbuf ELSE <<>>) /\ sock' = (IF "READ_DISC" \in flags THEN sock ELSE <<>>)
                  /\ IF "READ_DISC" \in flags THEN UNCHANGED <<flags, woken, reg>>
                     ELSE IF peerEof THEN /\ flags' = (flags \ {"LINGER"}) \cup {"READ_DISC", "SHUTDOWN"} /\ woken' = TRUE /\ reg' = reg
                     ELSE /\ flags' = flags /\ woken' = woken /\ reg' = reg \cup {"rd"}
  /\ pc' = "idle"
  /\ Same /\ UNCHANGED <<headT, kaT, sigSeen, lastConn, payload, cpl, msgs, st, cur, hp, error, result>>

\* the SHUTDOWN branch
Shutdown ==
  /\ pc = "shutdown"
  /\ IF "WRITE_DISC" \in flags
     THEN /\ result' = "done" /\ Emit([ev |-> "Done", res |-> "ok", kind |-> ""]) /\ UNCHANGED <<shutT, wbuf, nresp>>
          /\ obs' = obs \o ObsDone("ok")
     ELSE /\ shutT' = (IF shutT >= 0 \/ scn.disc_ms = 0 THEN shutT ELSE now + scn.disc_ms)     \* ensure_linger_timer
          /\ IF wbuf # <<>> /\ Blocked
             THEN \* ready!(poll_flush): Pending, woken when the socket becomes writable
                  /\ Emit([ev |-> "WritePend", n |-> 1]) /\ UNCHANGED <<nresp, wbuf, result, obs>>
             ELSE /\ nresp' = nresp + Len(wbuf) /\ wbuf' = <<>>
                  /\ LET r1 == FlushAll(wbuf, rs, nresp) IN
                     IF scn.shut = "ready"
                     THEN /\ result' = "done" /\ rs' = Step(r1, [ev |-> "Done", res |-> "ok", kind |-> "", t |-> now])
                          /\ obs' = obs \o ObsOf(wbuf) \o ObsDone("ok")
                     ELSE /\ result' = result /\ rs' = r1 /\ obs' = obs \o ObsOf(wbuf)       \* poll_shutdown stays Pending
  /\ reg' = (IF wbuf # <<>> /\ Blocked /\ "WRITE_DISC" \notin flags THEN reg \cup {"wr"} ELSE reg)
  /\ pc' = "idle"
  /\ Same /\ UNCHANGED <<sock, rbuf, flags, headT, kaT, sigSeen, lastConn, payload, cpl, msgs, st, cur, hp, error, woken>>

Next == ClientSend \/ ClientEof \/ HandlerTok \/ Signal \/ Tick \/ Writable \/ PollStart \/ ReadAvail \/ Request \/ Response \/ Flush \/ Tail_
        \/ Linger \/ Shutdown
Spec == Init /\ [][Next]_vars

(* ------------------------------- checked ------------------------------- *)
RefAccepts == rs.tag = "ok" \/ rs.sig \in KnownSigs
\* design-level form of the shutdown bound: with a disconnect timeout, a connection in SHUTDOWN or LINGER always has the timer armed
ShutdownIsTimed ==
  (pc = "idle" /\ ~woken /\ result = "run" /\ scn.disc_ms > 0 /\ flags \cap {"SHUTDOWN", "LINGER"} # {}) => shutT >= 0
\* a quiescent idle keep-alive connection has its keep-alive timer armed
IdleIsTimed ==
  (pc = "idle" /\ ~woken /\ result = "run" /\ KaOn /\ st = "none" /\ "KEEP_ALIVE" \in flags /\ "FINISHED" \in flags
   /\ flags \cap {"SHUTDOWN", "LINGER"} = {}) => kaT >= 0
\* no timer deadline lies in the past while the task sleeps (it would never fire)
NoMissedDeadline ==
  (pc = "idle" /\ ~woken /\ result = "run") => ~(Due(headT, now) \/ Due(kaT, now) \/ Due(shutT, now))
Terminal == pc = "idle" /\ (result = "done" \/ (~woken /\ now >= MaxT))
EmitScript == Terminal => PrintT(<<"CASE", ToJson([scn |-> scn, steps |-> hist, half_closed |-> HalfClosed, pred |-> obs])>>)
View == <<scn, wire, sock, rbuf, peerEof, signalled, now, flags, headT, kaT, shutT, sigSeen, lastConn, payload, cpl, msgs, st,
          cur, hp, wbuf, error, result, woken, reg, pc, budget, rs.tag>>
=====================================================================================
