SPECIFICATION Spec
CONSTANTS
  Enforce = {"C01", "C02", "C03", "C04"}
  N = 2
  Methods = {"GET"}
  Vers = {11}
  ReqConns = {"-"}
  ReqBodies = {"none", "ch"}
  Pends = {0, 1}
  Reads = {"none", "all"}
  Keeps = {"handler", "drop"}
  RespBodies = {"empty", "bytes"}
  RespConns = {"-"}
  Statuses = {200}
  BadAt = 1
  BadKind = "head"
  Budgets = {99}
  HalfClosed = TRUE
  Expects = {FALSE}
  UpgAt = 0
  DEV_UpgradeDropsWbuf = FALSE
  KaOn = TRUE
  DEV_CtxShared = FALSE
  DEV_PopIgnoresClose = TRUE
  DEV_UnreadCrossRequest = FALSE
  DEV_ChunkErrIsDisconnect = TRUE
  DEV_304Body = TRUE
  KnownSigs = {"C02/Done/unanswered-because-dropped-on-malformed-chunk", "C01/End/malformed-chunk-not-answered-4xx", "C03/Resp/after-final/close-response", "C03/Call/after-final/close-response", "C02/Junk/body-octets-after-304", "C02/RespCut/dropped-on-malformed-chunk"}
INVARIANTS RefAccepts NoStall EmitScript
VIEW View
CHECK_DEADLOCK FALSE
