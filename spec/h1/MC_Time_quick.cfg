SPECIFICATION Spec
CONSTANTS
  NReqs = {1, 2}
  Bodies = {FALSE, TRUE}
  Pends = {0, 1}
  Reads = {"all", "none"}
  Keeps = {"handler"}
  HeadMs = {0, 2000}
  KaMs = {0, 3000}
  DiscMs = {0, 2000}
  Shuts = {"ready", "never"}
  Graces = {FALSE, TRUE}
  Errs = {FALSE, TRUE}
  Budgets = {99}
  HalfClosed = TRUE
  MaxT = 8000
  KnownSigs = {"C03/Resp/after-final/close-response", "C03/Call/after-final/close-response"}
  DEV_KaRefire = FALSE
  DEV_HeadRefire = FALSE
  DEV_KaRearmsShutdown = FALSE
  DEV_LingerTimerAfterFlush = FALSE
  Enforce = {"C01", "C02", "C03", "C04", "C06"}
INVARIANTS EmitScript RefAccepts ShutdownIsTimed IdleIsTimed NoMissedDeadline
VIEW View
CHECK_DEADLOCK FALSE
