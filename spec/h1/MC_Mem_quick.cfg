SPECIFICATION Spec
CONSTANTS
  Bodies = {64}
  Readers = {"all", "step", "hold"}
  RespChunks = {0, 6}
  ChunkBlk = 2
  Budgets = {99, 0}
  Grants = {1, 3}
  Sends = {3, 8, 24}
  RCAP = 16
  PLCAP = 4
  WBCAP = 4
  DEV_NoBackpressure = FALSE
  DEV_UnboundedSend = FALSE
  KnownSigs = {}
  Enforce = {"C05"}
INVARIANTS EmitScript RefAccepts InBound OutBoundInv NoStall
VIEW View
CHECK_DEADLOCK FALSE
