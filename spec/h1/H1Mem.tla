----------------------------------- MODULE H1Mem -----------------------------------
(* Implementation-shaped model of what one HTTP/1 connection buffers                      *)
(* (actix-http/src/h1/dispatcher.rs read_available / poll_request / can_read / the        *)
(* SendPayload loop / poll_flush, decoder.rs PayloadDecoder, payload.rs need_read), in    *)
(* blocks of 8 KiB: the read buffer stops being filled at MAX_BUFFER_SIZE (16 blocks), a  *)
(* sized body is decoded as one chunk of everything that is buffered, the body channel    *)
(* asks for more only below 32 KiB (4 blocks), the response body is pulled only while the *)
(* write buffer is below h1_write_buffer_size, the socket accepts what its budget allows. *)
(*                                                                                        *)
(* Universe: one POST with a sized body of Body blocks; the handler reads everything at   *)
(* once, one chunk per token, or never; it then answers with Chunks chunks of ChunkBlk    *)
(* blocks each.  The client may send any amount at any time, the socket accepts only what *)
(* Writable grants.  After every poll the model emits the same accounting (Mem) event the *)
(* harness logs and the property monitor H1Ref judges it (C05: input held beyond the      *)
(* bound, response bytes buffered beyond write buffer + one chunk).  Environment          *)
(* histories of terminal states are replayed on the real dispatcher.                      *)
(* DEV_NoBackpressure / DEV_UnboundedSend describe code without the two mechanisms; with  *)
(* either one TRUE the monitor rejects the model.                                         *)
EXTENDS H1Ref, Json
CONSTANTS Bodies,          \* set of body sizes in blocks
          Readers,         \* subset of {"all", "step", "hold"}
          RespChunks,      \* set of numbers of response chunks
          ChunkBlk,        \* blocks per response chunk
          Budgets,         \* initial write budgets in blocks (99 = unlimited)
          Grants,          \* sizes of Writable grants in blocks
          Sends,           \* sizes of client segments in blocks
          RCAP, PLCAP, WBCAP,   \* read-buffer cap, body-channel low-water mark, write-buffer size (blocks)
          DEV_NoBackpressure, DEV_UnboundedSend, KnownSigs
BLK == 8192
HEAD == 64        \* bytes of the request head (not counted in blocks)

VARIABLES scn, wire, sockIn, rb, cpl, plq, plAlive, handed, st, hp, sendLeft, wb, wbHead, accepted, pulled, budget, taken,
          called, woken, reg, rs, hist, result
vars == <<scn, wire, sockIn, rb, cpl, plq, plAlive, handed, st, hp, sendLeft, wb, wbHead, accepted, pulled, budget, taken,
          called, woken, reg, rs, hist, result>>

Scn == [body : Bodies, reader : Readers, chunks : RespChunks, b0 : Budgets]
Sum(q) == LET F[i \in 0..Len(q)] == IF i = 0 THEN 0 ELSE F[i-1] + q[i] IN F[Len(q)]
Min2(a, b) == IF a < b THEN a ELSE b

GtOf(s) == <<[m |-> "POST", ver |-> 11, conn |-> "-", expect |-> FALSE, blen |-> s.body * BLK, chunked |-> FALSE,
              start |-> 0, end |-> HEAD + s.body * BLK, headlen |-> HEAD, upgrade |-> FALSE]>>
PfOf(s) == <<[status |-> 200, conn |-> "-", kind |-> (IF s.chunks = 0 THEN "empty" ELSE "body-stream"), sized |-> (s.chunks = 0),
              declared |-> 0, total |-> s.chunks * ChunkBlk * BLK, none |-> FALSE, end_err |-> FALSE,
              read |-> (IF s.reader = "hold" THEN "none" ELSE "all"), keep |-> "handler", before_empty |-> 0]>>
CfgOf(s) == [ka_ms |-> 5000, head_ms |-> 0, disc_ms |-> 0, half_closed |-> TRUE, wbuf |-> WBCAP * BLK, maxchunk |-> ChunkBlk * BLK, qallow |-> 0]

Step(r, e) == IF r.tag = "ok" THEN RefStep(r, e) ELSE r
Env(a) == hist' = Append(hist, a)

Init ==
  /\ scn \in Scn
  /\ wire = scn.body /\ sockIn = 0 /\ rb = 0 /\ cpl = 0 /\ plq = <<>> /\ plAlive = FALSE /\ handed = 0
  /\ st = "none" /\ hp = 0 /\ sendLeft = 0 /\ wb = 0 /\ wbHead = 0 /\ accepted = 0 /\ pulled = 0 /\ budget = scn.b0 /\ taken = 0
  /\ called = 0 /\ woken = TRUE /\ reg = {} /\ hist = <<>> /\ result = "run"
  /\ rs = RefInit([gt |-> GtOf(scn), pf |-> PfOf(scn), cfg |-> CfgOf(scn),
                   rej |-> [at |-> 0, off |-> 0, detect |-> 0, cls |-> "", status |-> 0, kind |-> ""], epi |-> FALSE,
                   sock |-> [shutdown |-> "ready", budget |-> (IF scn.b0 = 99 THEN -1 ELSE scn.b0 * BLK)], total |-> HEAD + scn.body * BLK])

(* ------------------------------- environment (only while the task is quiescent) ------------------------------- *)
Quiet == ~woken /\ result = "run"
DSame == UNCHANGED <<scn, rb, cpl, plq, plAlive, handed, st, sendLeft, wb, wbHead, accepted, pulled, taken, called, reg, result>>
\* the first segment also carries the head
ClientSend ==
  /\ Quiet /\ wire > 0
  /\ \E k \in Sends : k <= wire
       /\ wire' = wire - k /\ sockIn' = sockIn + k
       /\ rs' = Step(rs, [ev |-> "Feed", n |-> k * BLK + (IF wire = scn.body THEN HEAD ELSE 0), t |-> 0])
       /\ Env([seg |-> k])
  /\ woken' = ("rd" \in reg)
  /\ DSame /\ UNCHANGED <<hp, budget>>
ReadTok ==
  /\ Quiet /\ scn.reader = "step" /\ st = "svc" /\ hp = 0
  /\ hp' = 1 /\ woken' = TRUE
  /\ rs' = Step(rs, [ev |-> "HTok", i |-> 1, t |-> 0]) /\ Env([h |-> 1])
  /\ DSame /\ UNCHANGED <<wire, sockIn, budget>>
Writable ==
  /\ Quiet /\ budget # 99 /\ wb + wbHead > 0
  /\ \E k \in Grants :
       /\ budget' = budget + k /\ Env([w |-> k])
       /\ rs' = Step(rs, [ev |-> "Writable", k |-> k * BLK, t |-> 0])
  /\ woken' = ("wr" \in reg)
  /\ DSame /\ UNCHANGED <<wire, sockIn, hp>>

(* ------------------------------- one poll of the connection task (atomic) ------------------------------- *)
\* read_available: reads until Pending or until the buffer has reached its cap
ReadN == IF rb >= RCAP THEN 0 ELSE Min2(sockIn, RCAP - rb)
\* can_read: no body channel, or the channel asks for more
CanRead(q) == ~plAlive \/ DEV_NoBackpressure \/ Sum(q) < PLCAP

\* The decode loop and the handler alternate inside poll_response until nothing changes; for the three readers the fixpoint is:
\*   all  : everything buffered goes through the channel to the handler
\*   step : one decode (all that is buffered, as one chunk) if the channel asks for more; the handler takes one chunk per token
\*   hold : one decode if the channel asks for more, nothing is taken
Poll ==
  /\ woken /\ result = "run"
  /\ LET n0 == ReadN
         rb1 == rb + n0
         first == called = 0 /\ (rb1 > 0 \/ taken > 0 \/ n0 > 0 \/ sockIn > 0 \/ wire < scn.body)
         \* head decoded on the first poll that sees input
         isCall == called = 0 /\ wire < scn.body
         cpl0 == IF isCall THEN scn.body ELSE cpl
         alive0 == IF isCall THEN TRUE ELSE plAlive
         \* decode the buffered part of the body as one chunk
         dec == IF alive0 /\ cpl0 > 0 /\ rb1 > 0 /\ (DEV_NoBackpressure \/ Sum(plq) < PLCAP) THEN Min2(cpl0, rb1) ELSE 0
         plq1 == IF dec > 0 THEN Append(plq, dec) ELSE plq
         rb2 == rb1 - dec
         cpl1 == cpl0 - dec
         \* the handler
         take == IF ~(isCall \/ st = "svc") THEN 0
                 ELSE IF scn.reader = "all" THEN Sum(plq1)
                 ELSE IF scn.reader = "step" /\ hp > 0 /\ plq1 # <<>> THEN plq1[1]
                 ELSE 0
         plq2 == IF scn.reader = "all" THEN <<>> ELSE IF take > 0 THEN Tail(plq1) ELSE plq1
         \* after the handler took data the channel asks for more: one more decode in the same poll (poll_request after Pending)
         dec2 == IF take > 0 /\ cpl1 > 0 /\ rb2 > 0 /\ Sum(plq2) < PLCAP THEN Min2(cpl1, rb2) ELSE 0
         plq3 == IF dec2 > 0 THEN (IF scn.reader = "all" THEN <<>> ELSE Append(plq2, dec2)) ELSE plq2
         take2 == IF scn.reader = "all" THEN dec2 ELSE 0
         rb3 == rb2 - dec2
         cpl2 == cpl1 - dec2
         handed1 == handed + take + take2
         bodyDone == cpl2 = 0 /\ plq3 = <<>> /\ handed1 = scn.body
         inSvc == isCall \/ st = "svc"
         responds == inSvc /\ scn.reader # "hold" /\ bodyDone
         \* send_response: head (counted apart) then the SendPayload loop
         st1 == IF responds THEN (IF scn.chunks = 0 THEN "done" ELSE "send") ELSE IF inSvc THEN "svc" ELSE st
         left0 == IF responds THEN scn.chunks ELSE sendLeft
         head1 == IF responds THEN 1 ELSE wbHead
         \* while write_buf.len() < size: pull one chunk
         room == IF DEV_UnboundedSend THEN left0
                 ELSE IF wb >= WBCAP THEN 0
                 ELSE Min2(left0, ((WBCAP - wb) + ChunkBlk - 1) \div ChunkBlk)
         pull == IF st1 = "send" THEN room ELSE 0
         wb1 == wb + pull * ChunkBlk
         left1 == left0 - pull
         st2 == IF st1 = "send" /\ left1 = 0 THEN "done" ELSE st1
         \* poll_flush
         out == IF budget = 99 THEN wb1 ELSE Min2(wb1, budget)
         headOut == head1 = 1 /\ (budget = 99 \/ budget > 0 \/ wb1 = 0)
         wb2 == wb1 - out
         taken1 == taken + n0
     IN
     /\ sockIn' = sockIn - n0 /\ rb' = rb3 /\ cpl' = cpl2 /\ plq' = plq3 /\ plAlive' = (alive0 /\ ~(cpl2 = 0 /\ dec + dec2 > 0) /\ (cpl2 > 0))
     /\ handed' = handed1 /\ hp' = (IF take > 0 /\ scn.reader = "step" THEN 0 ELSE hp)
     /\ st' = st2 /\ sendLeft' = left1 /\ wb' = wb2 /\ wbHead' = (IF headOut THEN 0 ELSE head1)
     /\ accepted' = accepted + out /\ pulled' = pulled + pull * ChunkBlk
     /\ budget' = (IF budget = 99 THEN 99 ELSE budget - out) /\ taken' = taken1
     /\ called' = (IF isCall THEN 1 ELSE called)
     /\ reg' = (IF sockIn - n0 = 0 THEN {"rd"} ELSE {}) \cup (IF wb2 > 0 \/ (head1 = 1 /\ ~headOut) THEN {"wr"} ELSE {})
     \* self-wake: the read buffer is at its cap and the channel is not applying back-pressure; or more can be pulled and written
     \*            or the handler took data from a channel that had been applying back-pressure (Payload wakes the io task)
     /\ woken' = ((rb1 >= RCAP /\ ~(plAlive /\ ~DEV_NoBackpressure /\ Sum(plq) >= PLCAP))
                  \/ (take + take2 > 0 /\ cpl2 + rb3 > 0)
                  \/ (st2 = "send" /\ wb2 < WBCAP /\ left1 > 0 /\ out > 0))
     /\ LET r1 == IF isCall THEN Step(rs, [ev |-> "Call", i |-> 1, m |-> "POST", ver |-> 11, tok |-> TRUE, hok |-> TRUE, t |-> 0]) ELSE rs
            mem == [ev |-> "Mem", taken |-> (IF taken1 > 0 \/ isCall THEN HEAD ELSE 0) + taken1 * BLK, avail |-> (sockIn - n0) * BLK,
                    accepted |-> (accepted + out) * BLK, budget |-> 0, handed |-> handed1 * BLK, handed_cur |-> handed1 * BLK,
                    pulled |-> (pulled + pull * ChunkBlk) * BLK, calls |-> (IF isCall THEN 1 ELSE called),
                    live |-> 0, peak |-> 0, harness |-> 0, t |-> 0]
        IN rs' = Step(r1, mem)
  /\ UNCHANGED <<scn, wire, hist, result>>

Next == ClientSend \/ ReadTok \/ Writable \/ Poll
Spec == Init /\ [][Next]_vars

(* ------------------------------- checked ------------------------------- *)
RefAccepts == rs.tag = "ok" \/ rs.sig \in KnownSigs
\* the design-level bounds themselves
InBound  == rb <= RCAP /\ (DEV_NoBackpressure \/ Sum(plq) < PLCAP + RCAP)
OutBoundInv == DEV_UnboundedSend \/ wb < WBCAP + ChunkBlk
\* an unwoken connection with input waiting and room to take it, or with output and budget, would be a stall
NoStall == (~woken /\ result = "run") =>
             /\ ~(sockIn > 0 /\ rb < RCAP /\ "rd" \notin reg)
             /\ ~(wb > 0 /\ budget > 0 /\ "wr" \notin reg)
Terminal == ~woken /\ (wire = 0 \/ Len(hist) >= 12)
EmitScript == Terminal => PrintT(<<"CASE", ToJson([scn |-> scn, steps |-> hist, pred |-> [taken |-> taken, handed |-> handed,
                                                   accepted |-> accepted, pulled |-> pulled, st |-> st]])>>)
View == <<scn, wire, sockIn, rb, cpl, plq, plAlive, handed, st, hp, sendLeft, wb, wbHead, accepted, pulled, budget, taken, called, woken, reg, rs.tag, result>>
=====================================================================================
