SPECIFICATION Spec
CONSTANT Enforce = {"C01","C02","C03","C04","C05","C06"}
CHECK_DEADLOCK FALSE
