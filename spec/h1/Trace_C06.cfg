SPECIFICATION Spec
CONSTANT Enforce = {"C06"}
CHECK_DEADLOCK FALSE
