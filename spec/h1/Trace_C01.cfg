SPECIFICATION Spec
CONSTANT Enforce = {"C01"}
CHECK_DEADLOCK FALSE
