SPECIFICATION Spec
CONSTANT Enforce = {"C05"}
CHECK_DEADLOCK FALSE
