SPECIFICATION Spec
CONSTANT Enforce = {"C04"}
CHECK_DEADLOCK FALSE
