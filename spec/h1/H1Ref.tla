----------------------------------- MODULE H1Ref -----------------------------------
(* Property-level specification of an HTTP/1 server connection (C01-C06), written as   *)
(* a deterministic monitor over what an outside observer sees (DESIGN.md 2.1b, App. E): *)
(*   Reset    ground truth of the script: requests sent (gt), handler program facts    *)
(*            (pf), configuration, the first malformed message (rej), epilogue flag    *)
(*   Feed/Eof/Rst/Writable/Tick/Signal/HTok/BTok   what the environment did            *)
(*   Call/BodyIn/BodyEnd      what reached the application                             *)
(*   Resp/RespEnd/RespCut/Junk  the response stream as decoded by an independent        *)
(*            client-side parser that knows only the methods it sent                   *)
(*   Stall/Livelock/Done/End  scheduling observations                                  *)
(* The monitor never looks at dispatcher internals.  Enforce selects the properties    *)
(* whose clauses reject; the others are tracked but not enforced in that run.          *)
EXTENDS Integers, Sequences, FiniteSets, TLC
CONSTANT Enforce

Rej(sig, clause) == [tag |-> "rej", sig |-> sig, clause |-> clause]
\* E(P, c, ok, sig): clause of the properties P; ok is the (best-effort) next state
E(P, c, ok, sig) == IF c \/ (P \cap Enforce = {}) THEN ok ELSE Rej(sig, "")
Min(a, b) == IF a < b THEN a ELSE b
LAG == 600      \* granularity of the server's cached clock (500 ms) + one scheduling slice

NoCur == [k |-> 0, i |-> 0, status |-> 0, closing |-> FALSE, bodiless |-> TRUE, standalone |-> FALSE]
RefInit(e) ==
  [tag |-> "ok", gt |-> e.gt, pf |-> e.pf, cfg |-> e.cfg, rej |-> e.rej, epi |-> e.epi, sock |-> e.sock, total |-> e.total,
   fed |-> 0, eofFed |-> FALSE, rstFed |-> FALSE, called |-> 0, bin |-> 0, binDone |-> FALSE,
   nresp |-> 0, answered |-> 0, cur |-> NoCur, final |-> FALSE, finalWhy |-> "", errResp |-> FALSE, interim |-> 0,
   done |-> FALSE, signalled |-> FALSE, tSig |-> 0, tLastIn |-> 0, tFirstByte |-> -1, tShut |-> -1, tIdle |-> 0,
   lastEnded |-> [status |-> 0, m |-> "", total |-> 0, bodiless |-> FALSE], stalled |-> FALSE, wroteAny |-> FALSE,
   maxHeld |-> 0, tHead1 |-> -1, kaMayHaveFired |-> FALSE, anyCut |-> FALSE, doneErr |-> FALSE, tFinal |-> -1, sigTok |-> 0, t408 |-> -1, wpend |-> FALSE, everPend |-> FALSE,
   mem0 |-> -1, tAct |-> 0, tEof |-> -1, tAns |-> 0, closeI |-> 0, closeFed |-> -1, tCloseFed |-> -1, finalIdle |-> FALSE, unlimited |-> (e.sock.budget < 0)]

NReq(rs) == Len(rs.gt)
Faulted(rs) == rs.rstFed \/ (rs.eofFed /\ ~rs.cfg.half_closed)

(* ---- what the request and the response, and nothing else, determine (C02 FramingOwn) ---- *)
Bodiless(q, status) == q.m = "HEAD" \/ status \in {204, 304} \/ (status >= 100 /\ status < 200)
ExpectedComplete(p) == IF p.sized THEN p.total >= p.declared ELSE ~p.end_err
ExpectedLen(p) == IF p.sized THEN Min(p.declared, p.total) ELSE p.total
MustClose(q, p, cfg) == q.conn = "close" \/ (q.ver = 10 /\ q.conn # "keep-alive") \/ cfg.ka_ms = 0 \/ p.conn = "close"
AnnouncesClose(e) == e.conn = "close" \/ (e.ver = 10 /\ e.conn # "keep-alive")
\* (a chunked request has a body to read even when that body is empty: its terminator is unread when the handler answers at once)
MayCloseAnyway(rs, q, p) == ((q.blen > 0 \/ q.chunked) /\ p.read # "all") \/ rs.signalled \/ q.upgrade

(* closeFed: how much had been fed at the first moment after a closing response at which the connection had nothing left *)
(* to do: every dispatched request answered and every byte sent so far belonging to them.  A request that starts at or    *)
(* beyond that offset arrived when the connection should already have been shut down; the known deviation (requests that  *)
(* are already received or queued are still served after a closing response) does not cover it.                          *)
QuietAfterClose(rs) == /\ rs.final /\ rs.called = rs.answered /\ rs.cur.k = 0 /\ rs.called >= 1 /\ rs.called <= NReq(rs) /\ ~rs.anyCut
                       /\ rs.fed = rs.gt[rs.called].end
(* finalIdle: when the closing response ended, the request it answers was the last one dispatched, no byte of a later request  *)
(* had been sent, and the connection had no reason to read on (its body was complete, or unread and not drainable, which means *)
(* lingering close or shutdown at once): whatever request is dispatched after that arrived later.                              *)
ArrivedLater(rs, i) == \/ (rs.finalIdle /\ i > rs.closeI)
                       \/ (rs.closeFed >= 0 /\ i >= 1 /\ i <= NReq(rs) /\ rs.gt[i].start >= rs.closeFed)
AfterFinalSig(rs, what, i) == "C03/" \o what \o "/after-final/" \o rs.finalWhy \o (IF ArrivedLater(rs, i) THEN "/arrived-later" ELSE "")
(* ---------------------------------------------------------------------------------- *)
OnCall(rs, e) ==
  LET i == e.i IN
  E({"C01", "C03"}, i = rs.called + 1 /\ i <= NReq(rs) /\ e.tok,
   E({"C01"}, i > NReq(rs) \/ i < 1 \/ (e.hok /\ e.m = rs.gt[i].m /\ e.ver = rs.gt[i].ver),
    E({"C01"}, rs.rej.at = 0 \/ i < rs.rej.at \/ (i = rs.rej.at /\ rs.rej.kind = "chunk"),
     E({"C01"}, i > NReq(rs) \/ i < 1 \/ rs.fed >= rs.gt[i].start + rs.gt[i].headlen,
      E({"C03"}, ~rs.final,
       E({"C06"}, ~rs.signalled,
         [rs EXCEPT !.called = i, !.bin = 0, !.binDone = FALSE],
         "C06/Call/after-shutdown-signal"),
       AfterFinalSig(rs, "Call", i)),
      "C01/Call/before-its-head-was-sent"),
     "C01/Call/after-rejection-point/" \o rs.rej.cls),
    "C01/Call/request-differs-from-what-was-sent"),
   "C01/Call/not-the-next-sent-request")

OnBodyIn(rs, e) ==
  LET i == e.i IN
  \* bytes inside a malformed body up to the rejection point are not specified further
  E({"C01"}, i = rs.called /\ i >= 1 /\ (rs.rej.at = i \/ (e.ok /\ rs.bin + e.n <= rs.gt[i].blen)),
    [rs EXCEPT !.bin = @ + e.n], "C01/BodyIn/bytes-differ-from-what-was-sent")

OnBodyEnd(rs, e) ==
  LET i == e.i IN
  IF i < 1 \/ i > NReq(rs) THEN rs ELSE
  IF e.how = "eof"
  THEN E({"C01"}, rs.rej.at # i, 
        E({"C01"}, e.n = rs.gt[i].blen, [rs EXCEPT !.binDone = TRUE], "C01/BodyEnd/clean-end-at-wrong-length"),
        "C01/BodyEnd/clean-end-of-malformed-body/" \o rs.rej.cls)
  ELSE LET allSent == rs.fed >= rs.gt[i].end /\ ~rs.rstFed /\ rs.rej.at = 0 /\ ~rs.done /\ i = rs.called /\ rs.cfg.half_closed
           \* a handler that reads without pausing has taken every byte that was fed before the end of input was signalled
           eager == rs.pf[i].read = "all" /\ (IF "pend" \in DOMAIN rs.pf[i] THEN rs.pf[i].pend = 0 ELSE TRUE) /\ (IF "bpend" \in DOMAIN rs.pf[i] THEN rs.pf[i].bpend = 0 ELSE TRUE) IN
       E({"C01"}, rs.eofFed \/ rs.rstFed \/ rs.rej.at # 0 \/ rs.done,
        E({"C06"}, ~(rs.signalled /\ allSent /\ eager),
         E({"C01"}, ~(allSent /\ eager), rs, "C01/BodyEnd/error-although-body-was-sent-completely"),
         "C06/Graceful/in-flight-body-cut"),
        "C01/BodyEnd/error-for-a-well-formed-body")

OnResp(rs, e) ==
  IF e.interim THEN
     E({"C03"}, ~rs.final,
      E({"C02"}, e.status = 100 /\ rs.nresp + 1 <= NReq(rs) /\ rs.gt[rs.nresp + 1].expect /\ rs.interim < rs.nresp + 1,
        [rs EXCEPT !.interim = rs.nresp + 1, !.wroteAny = TRUE], "C02/Resp/unexpected-interim"),
      "C03/Resp/after-final/" \o rs.finalWhy)
  ELSE
  LET k == rs.nresp + 1
      base == [rs EXCEPT !.nresp = k, !.wroteAny = TRUE] IN
  E({"C03"}, ~rs.final,
   IF e.i = 0 THEN
      \* stand-alone error response: not tied to a dispatched request
      LET cur == [k |-> k, i |-> 0, status |-> e.status, closing |-> TRUE, bodiless |-> FALSE, standalone |-> TRUE] IN
      IF e.status \in {400, 431} THEN
         E({"C01"}, rs.rej.at # 0 /\ rs.fed >= rs.rej.detect,
          E({"C01"}, e.status = rs.rej.status,
           E({"C01", "C02"}, k = rs.rej.at \/ (rs.rej.kind = "chunk" /\ k = rs.rej.at + 1), [base EXCEPT !.cur = cur, !.errResp = TRUE], "C01/Resp/error-response-out-of-order"),
           "C01/Resp/wrong-error-status/" \o rs.rej.cls),
          "C01/Resp/4xx-without-malformed-input")
      ELSE IF e.status = 408 THEN
         E({"C06"}, rs.cfg.head_ms > 0 /\ rs.called = 0 /\ e.t + LAG >= rs.cfg.head_ms
                    \* (a connection that stopped reading because of the graceful-shutdown signal may still get the 408)
                    /\ (NReq(rs) = 0 \/ rs.fed < rs.gt[1].headlen \/ rs.tHead1 + LAG > rs.cfg.head_ms \/ rs.signalled),
           [base EXCEPT !.cur = cur, !.errResp = TRUE], "C06/Resp/408-not-justified")
      ELSE E({"C02"}, FALSE, [base EXCEPT !.cur = cur], "C02/Resp/unattributed-response")
   ELSE
      LET i == e.i IN
      \* (also C04: a response that never reaches the socket, or reaches it twice, breaks exactly-once delivery)
      E({"C02"} \cup (IF rs.anyCut THEN {} ELSE {"C04"}), i = k /\ i <= rs.called /\ i <= NReq(rs),
        LET q == rs.gt[i]  p == rs.pf[i]
            bodiless == Bodiless(q, e.status)
            closing == AnnouncesClose(e)
            cur == [k |-> k, i |-> i, status |-> e.status, closing |-> closing, bodiless |-> bodiless, standalone |-> FALSE]
            lenOk ==
              IF e.status = 204 THEN e.ncl = 0 /\ e.nte = 0
              ELSE IF bodiless THEN e.ncl <= 1 /\ ~(e.ncl > 0 /\ e.nte > 0)
              ELSE /\ e.ncl <= 1 /\ e.nte <= 1 /\ ~(e.ncl > 0 /\ e.nte > 0)
                   /\ IF p.sized THEN e.len = "cl" /\ e.cl = (IF p.kind = "empty" THEN 0 ELSE p.declared)
                      ELSE IF p.none THEN TRUE
                      ELSE e.len = "chunked" \/ (e.len = "none" /\ closing)
        IN
        E({"C02"}, e.ver = q.ver,
         E({"C02"}, e.status = p.status,
          E({"C02"}, lenOk,
           E({"C02", "C03"}, MustClose(q, p, rs.cfg) => closing,
            E({"C02"}, closing => (MustClose(q, p, rs.cfg) \/ MayCloseAnyway(rs, q, p)),
             E({"C06"}, (rs.signalled /\ rs.sigTok = i) => closing,
              [base EXCEPT !.cur = cur],
              "C06/Graceful/in-flight-response-without-close"),
              "C02/Resp/conn/close-not-called-for"),
            "C02/Resp/conn/close-lost"),
           "C02/Resp/length-headers/" \o (IF bodiless THEN "bodiless" ELSE IF p.sized THEN "sized" ELSE "stream")),
          "C02/Resp/status"),
         "C02/Resp/version"),
        IF e.i <= rs.nresp THEN "C02/Resp/second-response-to-a-request" ELSE "C02/Resp/not-in-request-order"),
   AfterFinalSig(rs, "Resp", e.i))

Closed(rs, cur, e) == 
  LET s1 == [rs EXCEPT !.answered = @ + 1, !.cur = NoCur,
                       !.lastEnded = [status |-> cur.status, m |-> (IF cur.i >= 1 /\ cur.i <= NReq(rs) THEN rs.gt[cur.i].m ELSE ""),
                                      total |-> (IF cur.i >= 1 /\ cur.i <= NReq(rs) THEN rs.pf[cur.i].total ELSE 0), bodiless |-> cur.bodiless]]
  IN IF cur.closing THEN [s1 EXCEPT !.final = TRUE, !.tFinal = e.t, !.tAct = e.t, !.tAns = e.t,
                                    !.finalWhy = (IF cur.standalone THEN "error-response" ELSE "close-response"),
                                    !.closeI = cur.i,
                                    !.finalIdle = /\ cur.i >= 1 /\ cur.i <= NReq(rs) /\ rs.called = cur.i /\ ~rs.anyCut
                                                  \* (octets after a 304 - a recorded finding - keep the writer busy after the head)
                                                  /\ ~(cur.status = 304 /\ rs.pf[cur.i].kind # "empty")
                                                  /\ rs.fed <= rs.gt[cur.i].end
                                                  \* (the handler's payload handle is gone once it has answered, unless the response body holds it: keep = "body")
                                                  /\ (rs.fed = rs.gt[cur.i].end \/ ~(rs.gt[cur.i].chunked /\ rs.pf[cur.i].keep # "body")),
                                    !.tCloseFed = IF cur.i < 1 \/ cur.i > NReq(rs) \/ rs.fed >= rs.gt[cur.i].end THEN e.t ELSE -1]
     ELSE [s1 EXCEPT !.tAct = e.t, !.tAns = e.t]

OnRespEnd(rs, e) ==
  LET cur == rs.cur IN
  IF cur.k = 0 THEN rs
  ELSE IF cur.i = 0 \/ cur.bodiless THEN Closed(rs, cur, e)
  ELSE
    LET p == rs.pf[cur.i] IN
    IF p.none THEN Closed(rs, cur, e) ELSE
    E({"C02"}, ExpectedComplete(p) \/ e.how = "eof",
     E({"C02"}, e.n = ExpectedLen(p),
      E({"C02"}, e.ok, Closed(rs, cur, e), "C02/Body/content-differs"),
      IF p.before_empty # 0 /\ e.n = (IF p.before_empty < 0 THEN 0 ELSE p.before_empty)
      THEN "C02/Body/length/ends-at-first-empty-chunk" ELSE "C02/Body/length"),
     "C02/Body/failed-body-looks-complete")

(* the connection was dropped on a malformed chunk without the 4xx the property asks for *)
ChunkDrop(rs) == rs.rej.at # 0 /\ rs.rej.kind = "chunk" /\ rs.fed >= rs.rej.detect /\ ~rs.errResp
(* some dispatched handler's body fails or ends short: the connection is then aborted, whatever else was queued *)
BodyFails(p) == p.end_err \/ (p.sized /\ p.total < p.declared)
SomeBodyFails(rs) == \E i \in 1..rs.called : i <= NReq(rs) /\ BodyFails(rs.pf[i])

OnRespCut(rs, e) ==
  LET cur == rs.cur IN
  IF cur.k = 0 \/ cur.i = 0 THEN
     E({"C02", "C04"}, Faulted(rs) \/ ~e.final \/ SomeBodyFails(rs), rs,
       IF ChunkDrop(rs) THEN "C02/RespCut/dropped-on-malformed-chunk" ELSE "C02/RespCut/head-cut")
  ELSE
     \* (a response that was started after a closing response - the recorded C03 deviation - may be cut by the shutdown)
     E({"C02", "C04"}, Faulted(rs) \/ ~e.final \/ cur.bodiless \/ SomeBodyFails(rs) \/ rs.final,
       [rs EXCEPT !.answered = @ + 1, !.cur = NoCur],
       IF ChunkDrop(rs) THEN "C02/RespCut/dropped-on-malformed-chunk" ELSE "C02/RespCut/complete-body-cut")

JunkSig(rs) ==
  LET le == rs.lastEnded IN
  IF le.status = 304 /\ le.m # "HEAD" THEN "C02/Junk/body-octets-after-304"
  ELSE IF le.status = 204 /\ le.total > 0 THEN "C02/Junk/body-octets-after-204"
  ELSE IF le.m = "HEAD" /\ le.total > 0 THEN "C02/Junk/after-HEAD-response"
  ELSE "C02/Junk/after-response"

(* ------------------------------- C06: time bounds ------------------------------- *)
(* idle: every dispatched request answered, nothing of a further request received *)
Idle(rs) == /\ rs.called = rs.answered /\ rs.cur.k = 0 /\ ~rs.final /\ ~rs.done /\ rs.called >= 1
            /\ rs.fed = rs.gt[rs.called].end /\ ~rs.eofFed /\ ~rs.rstFed /\ ~rs.signalled /\ rs.rej.at = 0
CanFinish(rs) == rs.sock.shutdown = "ready" /\ rs.unlimited
HeadLate(rs, t) == rs.cfg.head_ms > 0 /\ rs.tHead1 < 0 /\ rs.called = 0 /\ t >= rs.cfg.head_ms + LAG
\* lingering close (reading and discarding the rest of an unread body) is a phase of its own before the shutdown proper,
\* each bounded by the disconnect timeout
LingerPossible(rs) == \E i \in 1..rs.called : i <= NReq(rs) /\ (rs.gt[i].blen > 0 \/ rs.gt[i].chunked) /\ rs.pf[i].read # "all"
DiscBound(rs) == (IF LingerPossible(rs) THEN 2 ELSE 1) * rs.cfg.disc_ms + LAG
ShutLate(rs, t) ==
  /\ rs.cfg.disc_ms > 0 /\ ~rs.done
  \* after a closing response: counted from the moment the request it answers had been sent completely - an unread chunked
  \* body is drained for as long as the client keeps sending it (an unread sized body is lingered on, bounded like a shutdown)
  /\ \/ (rs.final /\ (rs.tCloseFed >= 0 \/ ~rs.gt[rs.closeI].chunked)
         /\ t - (IF rs.tCloseFed > rs.tFinal THEN rs.tCloseFed ELSE rs.tFinal) > DiscBound(rs))
     \/ (Idle(rs) /\ rs.cfg.ka_ms > 0 /\ t - rs.tAct > rs.cfg.ka_ms + DiscBound(rs))
     \/ (HeadLate(rs, t) /\ t > rs.cfg.head_ms + DiscBound(rs))
     \* the same two while the peer has stopped taking the server's bytes (an untaken 408; a half-closed client whose requests
     \* have all been handled by handlers that do not wait): shutdown was entered, the disconnect timer ends it
     \/ (HeadLate(rs, t) /\ rs.wpend /\ rs.rej.at = 0 /\ t > rs.cfg.head_ms + DiscBound(rs))
     \/ (rs.eofFed /\ rs.wpend /\ rs.rej.at = 0 /\ rs.cfg.half_closed /\ rs.called = NReq(rs) /\ rs.called >= 1 /\ rs.fed >= rs.total
         /\ (\A i \in 1..rs.called : IF "pend" \in DOMAIN rs.pf[i] THEN rs.pf[i].pend = 0 ELSE FALSE)
         /\ t - (IF rs.tEof > rs.tAct THEN rs.tEof ELSE rs.tAct) > DiscBound(rs))
     \* the peer half-closed and nothing is in flight: the connection is shut down
     \/ (rs.eofFed /\ rs.called = rs.answered /\ rs.cur.k = 0 /\ rs.unlimited /\ rs.rej.at = 0
         /\ t - (IF rs.tEof > rs.tAns THEN rs.tEof ELSE rs.tAns) > DiscBound(rs))
OnTime(rs, t) ==
  \* evaluated whenever virtual time is observed (Tick and Done events)
  E({"C06"}, ~(HeadLate(rs, t) /\ ~rs.errResp /\ ~rs.done /\ rs.unlimited /\ rs.rej.at = 0),
   E({"C06"}, ~(Idle(rs) /\ rs.cfg.ka_ms > 0 /\ CanFinish(rs) /\ t - rs.tAct >= rs.cfg.ka_ms + LAG),
    E({"C06"}, ~ShutLate(rs, t),
      rs,
      "C06/Shutdown/outlives-disconnect-timeout"),
    "C06/KeepAlive/idle-connection-not-closed"),
   "C06/SlowHead/no-408-after-timeout")

(* ------------------------------- C05: memory bounds ------------------------------- *)
IN_BOUND  == 2 * 131072 + 32768 + 65536       \* unparsed input + queued heads + body read-ahead + one read
OutBound(rs) == (IF rs.cfg.wbuf > 0 THEN rs.cfg.wbuf ELSE 32768) + rs.cfg.maxchunk + 16384
\* qallow: decoded-but-undispatched requests that one read buffer can hold (lib/h1gen.py computes it from the request size)
HeapBound(rs) == IN_BOUND + OutBound(rs) + 1048576 + rs.cfg.qallow
OnMem(rs, e) ==
  LET consumed == IF e.calls = 0 \/ e.calls > NReq(rs) THEN 0 ELSE rs.gt[e.calls].start + rs.gt[e.calls].headlen
      inHeld == e.taken - consumed - e.handed_cur
      s == IF rs.mem0 < 0 THEN [rs EXCEPT !.mem0 = e.live] ELSE rs
  IN
  E({"C05"}, e.calls > NReq(rs) \/ inHeld <= IN_BOUND + (IF e.calls = 0 THEN 0 ELSE rs.gt[e.calls].blen \div 8),
   E({"C05"}, e.pulled - e.accepted <= OutBound(rs),
    E({"C05"}, s.mem0 < 0 \/ e.live - s.mem0 <= HeapBound(rs) + e.harness,
      s,
      IF e.pulled = 0 /\ e.calls > 1000 THEN "C05/Heap/grows-with-pipelined-bodiless-responses" ELSE "C05/Heap/exceeds-configured-bound"),
    "C05/Out/response-bytes-buffered-beyond-write-buffer"),
   "C05/In/input-held-beyond-bound")


ErrEndJustified(rs, e) ==
  CASE e.kind \in {"Body", "Io"}     -> SomeBodyFails(rs) \/ Faulted(rs) \/ rs.rej.kind = "chunk"
    [] e.kind = "Parse"              -> rs.rej.at # 0
    [] e.kind = "DisconnectTimeout"  -> rs.cfg.disc_ms > 0
    [] e.kind = "SlowRequestTimeout" -> rs.cfg.head_ms > 0
    [] OTHER -> Faulted(rs)

OnDone(rs, e) ==
  LET s == [rs EXCEPT !.done = TRUE, !.doneErr = (e.res = "err")] IN
  E({"C06"}, ~ShutLate(rs, e.t),
  \* (the keep-alive clock starts when the handler has answered, which the client sees later if it was slow to take the response)
  E({"C06"}, ~(Idle(rs) /\ rs.cfg.ka_ms > 0 /\ e.res = "ok" /\ e.t - rs.tAct + LAG < rs.cfg.ka_ms /\ ~rs.everPend),
  E({"C04"}, e.res = "ok" \/ ErrEndJustified(rs, e),
   \* (what happens to a request that was dispatched after a closing response is part of that recorded C03 deviation)
   \* (a response the peer did not take while the keep-alive / disconnect time ran out is abandoned with the connection: the
   \*  timers double as a write time-out; that is the code's choice and the property does not forbid it)
   LET allAnswered == rs.called <= rs.answered + (IF rs.cur.k # 0 THEN 1 ELSE 0) \/ Faulted(rs) \/ e.res = "err" \/ rs.final \/ rs.wpend
       sig == IF ChunkDrop(rs) THEN "C02/Done/unanswered-because-dropped-on-malformed-chunk" ELSE "C02/Done/dispatched-request-never-answered" IN
   E({"C02"}, allAnswered,
    \* C04 (exactly-once delivery) reads the same observation, unless the response stream could not be attributed any more
    \* (octets after a bodiless response) or a closing response had already ended it
    E({"C04"}, allAnswered \/ rs.anyCut, s, sig),
    sig),
   "C04/Done/error-end-without-cause/" \o e.kind),
   "C06/KeepAlive/closed-before-timeout"),
   "C06/Shutdown/outlives-disconnect-timeout")

OnEnd(rs, e) ==
  IF ~rs.epi THEN rs
  ELSE
   \* after the shutdown signal the request in flight is still answered (everything it needs has been supplied by the epilogue)
   E({"C06"}, ~(rs.signalled /\ rs.called > rs.answered + (IF rs.cur.k # 0 THEN 1 ELSE 0) /\ ~Faulted(rs) /\ ~rs.rstFed /\ ~rs.anyCut
                /\ ~rs.doneErr /\ rs.rej.at = 0 /\ ~SomeBodyFails(rs) /\ rs.unlimited),
   E({"C04"}, e.done \/ (rs.sock.shutdown = "never" /\ rs.cfg.disc_ms = 0), 
    LET want == IF rs.rej.at # 0 THEN rs.rej.at - 1 ELSE NReq(rs) IN
    E({"C01"}, ~e.done \/ rs.final \/ Faulted(rs) \/ rs.called >= want \/ rs.kaMayHaveFired \/ rs.anyCut \/ rs.doneErr \/ ChunkDrop(rs),
     E({"C01"}, ~e.done \/ rs.rej.at = 0 \/ rs.errResp \/ rs.final \/ Faulted(rs) \/ rs.kaMayHaveFired \/ rs.anyCut \/ rs.doneErr, rs,
       IF rs.rej.kind = "chunk" THEN "C01/End/malformed-chunk-not-answered-4xx" ELSE "C01/End/malformed-head-not-answered-4xx/" \o rs.rej.cls),
     "C01/End/sent-request-never-dispatched"),
    "C04/End/connection-not-terminated"),
   "C06/Graceful/in-flight-request-not-answered")


RefStep0(rs, e) ==
  CASE e.ev = "Feed"     -> [rs EXCEPT !.fed = @ + e.n,
                                       !.closeFed = IF @ < 0 /\ e.n > 0 /\ QuietAfterClose(rs) THEN rs.fed ELSE @,
                                       !.tCloseFed = IF rs.final /\ @ < 0 /\ rs.closeI >= 1 /\ rs.closeI <= NReq(rs)
                                                        /\ rs.fed + e.n >= rs.gt[rs.closeI].end THEN e.t ELSE @, !.tLastIn = IF e.n > 0 THEN e.t ELSE @, !.tAct = e.t,
                                       !.tHead1 = IF NReq(rs) > 0 /\ @ < 0 /\ rs.fed + e.n >= rs.gt[1].headlen THEN e.t ELSE @]
    [] e.ev = "Eof"      -> [rs EXCEPT !.eofFed = TRUE, !.tAct = e.t, !.tEof = IF @ < 0 THEN e.t ELSE @]
    [] e.ev = "Rst"      -> [rs EXCEPT !.rstFed = TRUE]
    [] e.ev = "Signal"   -> [rs EXCEPT !.signalled = TRUE, !.tSig = e.t, !.tAct = e.t]
    [] e.ev = "Call"     -> OnCall(rs, e)
    [] e.ev = "BodyIn"   -> OnBodyIn(rs, e)
    [] e.ev = "BodyEnd"  -> OnBodyEnd(rs, e)
    [] e.ev = "Resp"     -> OnResp(rs, e)
    [] e.ev = "RespEnd"  -> OnRespEnd(rs, e)
    [] e.ev = "RespCut"  -> [OnRespCut(rs, e) EXCEPT !.anyCut = TRUE]
    [] e.ev = "Junk"     -> E({"C02"}, FALSE, [rs EXCEPT !.anyCut = TRUE, !.finalIdle = FALSE, !.closeFed = -1], JunkSig(rs))
    [] e.ev = "Stall"    -> E({"C04"}, FALSE, rs, "C04/Stall/progress-on-spurious-poll")
    [] e.ev = "Spin"     -> rs      \* busy self-wake loop while blocked: reported in the evidence, not a clause of C01-C06
    [] e.ev = "Panic"    -> Rej("C19/Panic", "")
    \* a single poll of the connection task did not return within the harness's wall-clock budget: nothing
    \* after it can be observed, so every property's check reports it
    [] e.ev = "Hang"     -> Rej("C04/Hang/poll-does-not-return", "")
    [] e.ev = "Skipped"  -> rs      \* case not run: the harness gives up after three hung cases
    [] e.ev = "Done"     -> OnDone(rs, e)
    [] e.ev = "End"      -> OnEnd(rs, e)
    [] e.ev = "Mem"      -> OnMem(rs, e)
    [] e.ev = "HTok"     -> [rs EXCEPT !.tAct = e.t, !.sigTok = IF rs.signalled THEN e.i ELSE @]
    [] e.ev = "BTok"     -> [rs EXCEPT !.tAct = e.t]
    [] e.ev = "Writable" -> [rs EXCEPT !.tAct = e.t, !.wpend = FALSE]
    [] e.ev = "WritePend" -> [rs EXCEPT !.wpend = TRUE, !.everPend = TRUE]      \* the peer is not taking what the server has to write
    [] e.ev = "Tick"     -> LET r1 == OnTime(rs, e.t) IN IF r1.tag = "rej" THEN r1 ELSE [rs EXCEPT !.kaMayHaveFired = @ \/ (rs.cfg.ka_ms > 0 /\ e.t - rs.tLastIn + LAG >= rs.cfg.ka_ms)
                                                            \/ (rs.cfg.head_ms > 0 /\ rs.called = 0 /\ e.t + LAG >= rs.cfg.head_ms)]
    [] OTHER -> rs          \* Writable, HTok, BTok, WritePend, Shutdown, Quiesce, Mem: bookkeeping

RefStep(rs, e) == RefStep0(rs, e)
======================================================================================
