SPECIFICATION Spec
CONSTANT Enforce = {"C03"}
CHECK_DEADLOCK FALSE
