SPECIFICATION Spec
CONSTANT Enforce = {"C02"}
CHECK_DEADLOCK FALSE
