SPECIFICATION Spec
CONSTANTS
  Limit = 4
  Totals = {1, 2, 3, 4, 5, 6, 9}
  MaxChunks = 5
  Precheck = TRUE
  DEV_CheckAfterExtend = FALSE
  DEV_OffByOne = FALSE
INVARIANTS OkOnlyWithin OverflowReported WithinAccepted BufBounded PullBounded EmitCase
CHECK_DEADLOCK FALSE
