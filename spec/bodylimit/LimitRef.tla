------------------------------------ MODULE LimitRef ------------------------------------
(* Property-level specification of C12 (buffering extractors and their limits).           *)
(* One observation per request: extractor, limit, the decoded body length the generator    *)
(* produced (total), the declared Content-Length (-1 none), the largest decoded chunk,      *)
(* and what happened: status (200 / 413 / other), how many decoded bytes the extractor      *)
(* pulled from the stream, and the heap high-water mark above the baseline.                 *)
EXTENDS Integers, Sequences, TLC
Rej(sig, clause) == [tag |-> "rej", sig |-> sig, clause |-> clause]
E(c, ok, sig) == IF c THEN ok ELSE Rej(sig, "")
RefInit == [tag |-> "ok"]
MustSucceed(e) == e.total <= e.limit /\ (e.declared = -1 \/ e.declared <= e.limit)
RefStep(rs, e) ==
  CASE e.ev = "extract" ->
         E(e.status # 200 \/ e.total <= e.limit,
          E(~MustSucceed(e) \/ e.status = 200,
           E(e.total <= e.limit \/ e.status = 413,
            E(e.pulled <= e.limit + e.maxchunk,
             E(e.coding # "identity" \/ e.held <= e.limit + 2 * e.maxwire + e.slack,
              E(e.coding = "identity" \/ e.held <= e.limit + 2 * e.maxwire + e.slack, rs,
                "C12/Held/decompressed-beyond-limit-plus-chunk/" \o e.ex),
              "C12/Held/buffered-beyond-limit-plus-chunk/" \o e.ex),
             "C12/Pull/read-beyond-limit-plus-chunk/" \o e.ex),
            "C12/Status/overflow-not-reported/" \o e.ex),
           "C12/Reject/body-within-limit-refused/" \o e.ex),
          "C12/Accept/body-over-limit-accepted/" \o e.ex)
    [] e.ev = "Panic" -> Rej("C19/Panic", "")
    [] OTHER -> rs
=======================================================================================
