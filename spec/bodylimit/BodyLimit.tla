----------------------------------- MODULE BodyLimit -----------------------------------
(* Implementation-shaped model of the buffering extractors (HttpMessageBody, JsonBody,     *)
(* UrlEncoded, to_bytes_limited): a pre-check of the declared Content-Length and a per-chunk *)
(* check `buffered + chunk > limit` before extending the buffer.  The environment chooses    *)
(* the body length, its composition into chunks and what Content-Length it declares.         *)
(* Checked against the property: success only within the limit, overflow reported otherwise, *)
(* never more than limit + one chunk pulled or held, outcome independent of the chunking.    *)
EXTENDS Integers, Sequences, FiniteSets, TLC, Json
CONSTANTS Limit, Totals, MaxChunks, Precheck,
          DEV_CheckAfterExtend,   \* regression: the limit is tested after the chunk was appended (>= vs >)
          DEV_OffByOne
VARIABLES chunks, declared, i, buf, pulled, outcome

Compositions(n) == {c \in UNION {[1..k -> 1..n] : k \in 1..MaxChunks} : (LET S[j \in 0..Len(c)] == IF j = 0 THEN 0 ELSE S[j-1] + c[j] IN S[Len(c)]) = n}
Sum(c) == LET S[j \in 0..Len(c)] == IF j = 0 THEN 0 ELSE S[j-1] + c[j] IN S[Len(c)]
Init == /\ \E n \in Totals : chunks \in Compositions(n)
        /\ declared \in {-1, Sum(chunks), Sum(chunks) - 1, Limit + 3}
        /\ i = 1 /\ buf = 0 /\ pulled = 0 /\ outcome = "reading"
Start == /\ outcome = "reading" /\ i = 1 /\ pulled = 0 /\ buf = 0
         /\ Precheck /\ declared > Limit
         /\ outcome' = "overflow" /\ UNCHANGED <<chunks, declared, i, buf, pulled>>
Pull  == /\ outcome = "reading" /\ ~(Precheck /\ declared > Limit /\ i = 1 /\ pulled = 0)
         /\ IF i > Len(chunks) THEN /\ outcome' = "ok" /\ UNCHANGED <<i, buf, pulled>>
            ELSE LET c == chunks[i] IN
                 /\ pulled' = pulled + c
                 /\ IF DEV_CheckAfterExtend
                    THEN /\ buf' = buf + c /\ outcome' = (IF buf + c > Limit THEN "overflow" ELSE "reading")
                    ELSE IF (IF DEV_OffByOne THEN buf + c >= Limit ELSE buf + c > Limit)
                         THEN /\ outcome' = "overflow" /\ buf' = buf
                         ELSE /\ buf' = buf + c /\ outcome' = "reading"
                 /\ i' = i + 1
         /\ UNCHANGED <<chunks, declared>>
Next == Start \/ Pull
Spec == Init /\ [][Next]_<<chunks, declared, i, buf, pulled, outcome>>

Total == Sum(chunks)
MaxChunk == CHOOSE m \in {chunks[j] : j \in 1..Len(chunks)} : \A j \in 1..Len(chunks) : chunks[j] <= m
OkOnlyWithin == outcome = "ok" => Total <= Limit
OverflowReported == (outcome # "reading" /\ Total > Limit) => outcome = "overflow"
WithinAccepted == (outcome # "reading" /\ Total <= Limit /\ (declared = -1 \/ declared <= Limit \/ ~Precheck)) => outcome = "ok"
BufBounded == buf <= Limit
PullBounded == pulled <= Limit + MaxChunk
EmitCase == (outcome # "reading") => PrintT(<<"CASE", ToJson([chunks |-> chunks, declared |-> declared, limit |-> Limit])>>)
=======================================================================================
