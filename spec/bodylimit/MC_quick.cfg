SPECIFICATION Spec
CONSTANTS
  Limit = 4
  Totals = {1, 3, 4, 5, 9}
  MaxChunks = 4
  Precheck = TRUE
  DEV_CheckAfterExtend = FALSE
  DEV_OffByOne = FALSE
INVARIANTS OkOnlyWithin OverflowReported WithinAccepted BufBounded PullBounded EmitCase
CHECK_DEADLOCK FALSE
