------------------------------------- MODULE H2Send -------------------------------------
(* Implementation-shaped model of the HTTP/2 response sender                               *)
(* (actix-http/src/h2/dispatcher.rs handle_response): per body chunk                        *)
(*   reserve_capacity(min(len, CHUNK)) -> poll_capacity -> split_to(min(len, cap)) -> send  *)
(* for 1-2 concurrent streams sharing a connection window.  The peer (environment) grants   *)
(* stream and connection window in arbitrary amounts at arbitrary times or never.           *)
(* Checked: bytes received = bytes produced, in order; a stream with capacity always makes   *)
(* progress (no state with open windows, data to send and no enabled step); a stream that   *)
(* never gets window does not block the other while the connection window is open.          *)
EXTENDS Integers, Sequences, FiniteSets, TLC, Json
CONSTANTS NS, Bodies, CHUNK, Wins, ConnWins, GrantSizes, MaxGrants,
          DEV_EmptyChunkStalls,     \* pinned tree: an empty chunk reserves 0 and waits for ever
          Resets,                   \* TRUE: the peer may reset a stream at any time
          DEV_ResetKeepsPulling     \* a sender that only leaves the capacity loop, not the body loop, when poll_capacity says the stream is gone
VARIABLES body, idx, rem, reserved, win, conn, sent, phase, grants, hist,
          rst,          \* streams the peer has reset
          after         \* chunks pulled from a stream's body after its reset

Streams == 1..NS
\* body chunkings (sizes in units; CHUNK is the per-reservation cap): empty chunks, chunks larger than CHUNK and than any window
ChunkSets == IF Bodies = "small" THEN {<<>>, <<3>>, <<0, 2>>, <<2, 0, 1>>, <<5>>}
             ELSE {<<>>, <<1>>, <<3>>, <<0, 2>>, <<2, 0, 1>>, <<5>>, <<9>>, <<4, 4>>, <<0>>, <<1, 0, 0, 6>>}
Min(a, b) == IF a < b THEN a ELSE b
Init == /\ body \in [Streams -> ChunkSets] /\ idx = [s \in Streams |-> 1] /\ rem = [s \in Streams |-> 0]
        /\ reserved = [s \in Streams |-> 0] /\ win \in [Streams -> Wins] /\ conn \in ConnWins
        /\ sent = [s \in Streams |-> 0] /\ phase = [s \in Streams |-> "poll"] /\ grants = 0 /\ hist = <<>>
        /\ rst = {} /\ after = [s \in Streams |-> 0]
Total(s) == LET F[i \in 0..Len(body[s])] == IF i = 0 THEN 0 ELSE F[i-1] + body[s][i] IN F[Len(body[s])]
\* body.poll_next
PollBody(s) ==
  /\ phase[s] = "poll"
  /\ IF idx[s] > Len(body[s]) THEN /\ phase' = [phase EXCEPT ![s] = "done"] /\ UNCHANGED <<idx, rem, reserved, after>>
     ELSE LET c == body[s][idx[s]] IN
          /\ idx' = [idx EXCEPT ![s] = @ + 1]
          /\ after' = (IF s \in rst /\ c > 0 THEN [after EXCEPT ![s] = @ + 1] ELSE after)      \* (empty chunks are skipped without touching the stream)
          /\ IF c = 0 /\ ~DEV_EmptyChunkStalls THEN /\ phase' = phase /\ UNCHANGED <<rem, reserved>>
             ELSE /\ rem' = [rem EXCEPT ![s] = c] /\ reserved' = [reserved EXCEPT ![s] = Min(c, CHUNK)] /\ phase' = [phase EXCEPT ![s] = "cap"]
  /\ UNCHANGED <<body, win, conn, sent, grants, hist, rst>>
\* poll_capacity resolves with some capacity 1..min(reserved, stream window, connection window)
Capacity(s) ==
  /\ phase[s] = "cap" /\ s \notin rst /\ reserved[s] > 0 /\ win[s] > 0 /\ conn > 0
  /\ \E cap \in 1..Min(reserved[s], Min(win[s], conn)) :
       LET n == Min(rem[s], cap) IN
       /\ sent' = [sent EXCEPT ![s] = @ + n] /\ win' = [win EXCEPT ![s] = @ - n] /\ conn' = conn - n
       /\ rem' = [rem EXCEPT ![s] = @ - n]
       /\ IF rem[s] - n = 0 THEN /\ phase' = [phase EXCEPT ![s] = "poll"] /\ reserved' = [reserved EXCEPT ![s] = 0]
          ELSE /\ phase' = phase /\ reserved' = [reserved EXCEPT ![s] = Min(rem[s] - n, CHUNK)]
  /\ UNCHANGED <<body, idx, grants, hist, rst, after>>
\* poll_capacity on a stream the peer has reset yields None: the response task drops the body and returns
Gone(s) ==
  /\ phase[s] = "cap" /\ s \in rst
  /\ phase' = [phase EXCEPT ![s] = IF DEV_ResetKeepsPulling THEN "poll" ELSE "dropped"]
  /\ rem' = [rem EXCEPT ![s] = 0] /\ reserved' = [reserved EXCEPT ![s] = 0]
  /\ UNCHANGED <<body, idx, win, conn, sent, grants, hist, rst, after>>
\* the peer resets a stream whose response is not complete
PeerReset(s) ==
  /\ Resets /\ s \notin rst /\ phase[s] \notin {"done", "dropped"} /\ rst = {}
  /\ rst' = rst \cup {s}
  /\ UNCHANGED <<body, idx, rem, reserved, win, conn, sent, phase, grants, hist, after>>
\* the peer releases window
Grant(s) == /\ grants < MaxGrants /\ \E k \in GrantSizes : /\ win' = [win EXCEPT ![s] = @ + k] /\ conn' = conn + k /\ hist' = Append(hist, <<s, k>>)
            /\ grants' = grants + 1 /\ UNCHANGED <<body, idx, rem, reserved, sent, phase, rst, after>>
Next == \E s \in Streams : PollBody(s) \/ Capacity(s) \/ Grant(s) \/ Gone(s) \/ PeerReset(s)
Spec == Init /\ [][Next]_<<body, idx, rem, reserved, win, conn, sent, phase, grants, hist, rst, after>>

NeverOver == \A s \in Streams : sent[s] <= Total(s) /\ win[s] >= 0
Exact == \A s \in Streams : (phase[s] = "done" /\ s \notin rst) => sent[s] = Total(s)
(* the body of a stream the peer has reset is not pulled on: at most the (non-empty) chunk that was being fetched when the reset arrived *)
ResetStopsPulling == \A s \in Streams : after[s] <= 1
(* a stream that waits for capacity with both windows open can always take a step (no hang) *)
NoHang == \A s \in Streams : (phase[s] = "cap" /\ win[s] > 0 /\ conn > 0) => reserved[s] > 0
Independent == \A s, t \in Streams : (s # t /\ phase[s] = "cap" /\ win[s] = 0 /\ phase[t] = "cap" /\ win[t] > 0 /\ conn > 0) => reserved[t] > 0
EmitCase == (rst = {} /\ \A s \in Streams : phase[s] = "done") => PrintT(<<"CASE", ToJson([bodies |-> body, grants |-> hist])>>)
View == <<body, idx, rem, reserved, win, conn, sent, phase, rst, after>>
=======================================================================================
