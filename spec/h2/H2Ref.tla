------------------------------------- MODULE H2Ref -------------------------------------
(* Property-level specification of C08 (HTTP/2 responses under flow control), a monitor    *)
(* over what an h2 client endpoint observes on each stream:                                 *)
(*   Reset{streams}   ground truth per stream: method, status, total body bytes the         *)
(*        handler's body produces, sized/declared, release policy of the client             *)
(*   Head{s, status, cl, hop}   response head (cl = -1: no content-length; hop: a           *)
(*        connection-specific header was present)                                           *)
(*   Data{s, n, ok}   End{s}   Rst{s}   Blocked{s}  (no frame although the client's window   *)
(*        for s is open)   Pulled{s, n} bytes pulled out of the handler's body   Done        *)
EXTENDS Integers, Sequences, FiniteSets, TLC
Rej(sig, clause) == [tag |-> "rej", sig |-> sig, clause |-> clause]
E(c, ok, sig) == IF c THEN ok ELSE Rej(sig, "")
RefInit(e) == [tag |-> "ok", st |-> e.streams, window |-> e.window, got |-> [i \in 1..Len(e.streams) |-> 0], headed |-> {}, ended |-> {}, bad |-> {}]
Bodiless(x) == x.method = "HEAD" \/ x.status \in {204, 304} \/ (x.status >= 100 /\ x.status < 200)
ExpLen(x) == IF Bodiless(x) THEN 0 ELSE IF x.sized THEN (IF x.declared < x.total THEN x.declared ELSE x.total) ELSE x.total
\* a sized body that does not produce exactly its declared size is the handler's error: nothing is required of such a stream
Complete(x) == ~x.end_err /\ (x.sized => x.total = x.declared)
RefStep(rs, e) ==
  CASE e.ev = "Head" ->
         LET x == rs.st[e.s] IN
         E(e.s \notin rs.headed,
          E(e.status = x.status,
           E(~e.hop,
            E(e.cl = -1 \/ Bodiless(x) \/ e.cl = ExpLen(x) \/ ~Complete(x), [rs EXCEPT !.headed = @ \cup {e.s}],
              "C08/Head/content-length-does-not-match-the-body"),
            "C08/Head/connection-specific-header-sent"),
           "C08/Head/status"),
          "C08/Head/second-response-on-a-stream")
    [] e.ev = "Data" ->
         LET x == rs.st[e.s] IN
         E(e.s \in rs.headed /\ e.s \notin rs.ended,
          E(~Bodiless(x) \/ e.n = 0,
           E((e.ok /\ rs.got[e.s] + e.n <= ExpLen(x)) \/ ~Complete(x), [rs EXCEPT !.got[e.s] = @ + e.n], "C08/Data/bytes-differ-from-the-body"),
           "C08/Data/body-for-a-bodiless-response"),
          "C08/Data/outside-an-open-response")
    [] e.ev = "End" ->
         LET x == rs.st[e.s] IN
         E(e.s \in rs.headed,
          E(rs.got[e.s] = ExpLen(x) \/ ~Complete(x), 
           E(Complete(x), [rs EXCEPT !.ended = @ \cup {e.s}], "C08/End/failed-body-ended-cleanly"),
           "C08/End/body-incomplete"),
          "C08/End/without-head")
    [] e.ev = "Rst" -> LET x == rs.st[e.s] IN E(~Complete(x) \/ x.client_resets, [rs EXCEPT !.ended = @ \cup {e.s}], "C08/Rst/complete-body-reset")
    \* independence: once the client has reset a stream (or simply never reads it) the handler's body is not pulled on and on -
    \* an endless ready body would keep the worker busy for nobody and starve the other streams.  What can have been pulled is what
    \* the client took, plus one stream window, plus the chunk in hand (and one frame of slack).
    [] e.ev = "Pulled" ->
         LET x == rs.st[e.s] IN
         E(~(x.client_resets \/ x.policy = "never") \/ e.n <= rs.got[e.s] + rs.window + 2 * x.maxchunk + 16384, rs,
           "C08/Independent/body-of-an-abandoned-stream-pulled-to-its-end")
    [] e.ev = "Blocked" ->
         \* the client's window for s was open and everything released, yet nothing arrived
         LET x == rs.st[e.s] IN E(x.policy = "never" \/ x.stuck_handler, rs, "C08/Blocked/stream-stalls-with-open-window")
    [] e.ev = "Panic" -> Rej("C19/Panic", "")
    [] OTHER -> rs
=======================================================================================
