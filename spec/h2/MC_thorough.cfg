SPECIFICATION Spec
CONSTANTS
  NS = 2
  Bodies = "all"
  CHUNK = 4
  Wins = {0, 1, 3, 8}
  ConnWins = {2, 6}
  GrantSizes = {1, 4}
  MaxGrants = 5
  DEV_EmptyChunkStalls = FALSE
  Resets = FALSE
  DEV_ResetKeepsPulling = FALSE
INVARIANTS NeverOver Exact NoHang Independent ResetStopsPulling EmitCase
VIEW View
CHECK_DEADLOCK FALSE
