SPECIFICATION Spec
CONSTANTS
  NS = 2
  Bodies = "small"
  CHUNK = 4
  Wins = {0, 1, 3}
  ConnWins = {2, 6}
  GrantSizes = {1, 4}
  MaxGrants = 3
  DEV_EmptyChunkStalls = FALSE
  Resets = FALSE
  DEV_ResetKeepsPulling = FALSE
INVARIANTS NeverOver Exact NoHang Independent ResetStopsPulling EmitCase
VIEW View
CHECK_DEADLOCK FALSE
