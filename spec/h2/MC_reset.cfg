SPECIFICATION Spec
CONSTANTS
  NS = 2
  Bodies = "small"
  CHUNK = 4
  Wins = {0, 3}
  ConnWins = {6}
  GrantSizes = {4}
  MaxGrants = 2
  DEV_EmptyChunkStalls = FALSE
  Resets = TRUE
  DEV_ResetKeepsPulling = FALSE
INVARIANTS NeverOver Exact NoHang Independent ResetStopsPulling
VIEW View
CHECK_DEADLOCK FALSE
