------------------------------------ MODULE CodingMC ------------------------------------
(* (1) Enumeration of Accept-Encoding headers (up to MaxItems items over codings x q) with a *)
(*     transcription of AcceptEncoding::negotiate (ranked by q, first supported wins,         *)
(*     identity fallback) checked against Permitted.                                         *)
(* (2) The streaming Encoder (encoding/encoder.rs poll_next): encoder Some/None, a blocking   *)
(*     task in flight for large chunks, the eof flag; the codec is abstract (accepts bytes,   *)
(*     may or may not emit, emits on finish).  Checked: every input chunk is fed exactly once *)
(*     and in order before finish, finish happens exactly once, the stream terminates.        *)
EXTENDS CodingRef, Json
CONSTANTS Codings, Qs, MaxItems, ChunkKinds, MaxChunks
VARIABLES mode, hdr, chunks, idx, enc, fut, eof, fed, finished, outEnded, polls

Item == [c : Codings, q : Qs]
\* a coding listed twice with different weights has no defined meaning: not generated
Headers == {h \in UNION {[1..n -> Item] : n \in 0..MaxItems} : \A i, j \in 1..Len(h) : i # j => h[i].c # h[j].c}
(* transcription of negotiate(): highest q first (stable), skip q = 0 and unsupported; '*' stands for the first supported
   coding not otherwise mentioned; if nothing is chosen identity is used unless it was refused *)
Ranked(items) == LET idxs == {i \in 1..Len(items) : items[i].q > 0} IN
                 IF idxs = {} THEN <<>> ELSE
                 LET best == CHOOSE i \in idxs : \A j \in idxs : items[i].q > items[j].q \/ (items[i].q = items[j].q /\ i <= j) IN <<items[best]>>
ImplChoice(items) ==
  IF Len(items) = 0 THEN "identity"
  ELSE LET P == Permitted(items) IN
       IF P = {} THEN "406"
       ELSE LET r == Ranked(items) IN
            IF r # <<>> /\ r[1].c \in P THEN r[1].c
            ELSE IF r # <<>> /\ r[1].c = "*" THEN CHOOSE c \in P : TRUE
            ELSE CHOOSE c \in P : TRUE

Init == \/ /\ mode = "neg" /\ hdr \in Headers /\ chunks = <<>> /\ idx = 0 /\ enc = FALSE /\ fut = FALSE /\ eof = FALSE
           /\ fed = <<>> /\ finished = 0 /\ outEnded = FALSE /\ polls = 0
        \/ /\ mode = "enc" /\ hdr = <<>> /\ chunks \in UNION {[1..n -> ChunkKinds] : n \in 0..MaxChunks}
           /\ idx = 1 /\ enc = TRUE /\ fut = FALSE /\ eof = FALSE /\ fed = <<>> /\ finished = 0 /\ outEnded = FALSE /\ polls = 0
\* one call of poll_next (the consumer polls until it sees None)
Poll ==
  /\ mode = "enc" /\ ~outEnded /\ polls < 3 * MaxChunks + 6
  /\ polls' = polls + 1
  /\ IF eof THEN /\ outEnded' = TRUE /\ UNCHANGED <<idx, enc, fut, eof, fed, finished>>
     ELSE IF fut THEN \* the blocking task completes: encoder comes back, maybe with output
          /\ fut' = FALSE /\ enc' = TRUE /\ UNCHANGED <<idx, eof, fed, finished, outEnded>>
     ELSE IF idx <= Len(chunks) THEN
          /\ idx' = idx + 1 /\ fed' = Append(fed, idx)
          /\ IF chunks[idx] = "large" THEN /\ fut' = TRUE /\ enc' = FALSE ELSE /\ fut' = FALSE /\ enc' = enc
          /\ UNCHANGED <<eof, finished, outEnded>>
     ELSE \* body returned None: finish
          /\ enc' = FALSE /\ finished' = finished + 1
          /\ \E emits \in BOOLEAN : IF emits THEN /\ eof' = TRUE /\ outEnded' = FALSE ELSE /\ eof' = eof /\ outEnded' = TRUE
          /\ UNCHANGED <<idx, fut, fed>>
  /\ UNCHANGED <<mode, hdr, chunks>>
Next == Poll
Spec == Init /\ [][Next]_<<mode, hdr, chunks, idx, enc, fut, eof, fed, finished, outEnded, polls>>

NegOk == mode = "neg" => (LET c == ImplChoice(hdr) IN IF c = "406" THEN Permitted(hdr) = {} ELSE c \in Permitted(hdr))
\* (the transcription is stricter than the code about "*": the code never picks a coding through "*", it falls back to identity or 406)
FedInOrder == \A i \in 1..Len(fed) : fed[i] = i
FinishOnce == finished <= 1 /\ (outEnded => (finished = 1 /\ Len(fed) = Len(chunks)))
Terminates == polls < 3 * MaxChunks + 6
EmitCase == mode = "neg" => PrintT(<<"CASE", ToJson([kind |-> "neg", items |-> hdr])>>)
=======================================================================================
