------------------------------------ MODULE CodingRef ------------------------------------
(* Property-level specification of C13 (content coding).                                    *)
(*  neg{items, chosen, status}: Accept-Encoding as a list of [c, q] (q in tenths), the       *)
(*      coding the response was labelled with ("identity" when unlabelled) or 406.           *)
(*  body{...}: one response through the Compress middleware: label, whether decoding with    *)
(*      the labelled codec gives the handler's body, length header consistency, whether the  *)
(*      response had to pass through unchanged, whether the stream terminated.               *)
(*  wire{...}: the same, read from a real HTTP/1.1 keep-alive connection by a byte-level     *)
(*      client: framing announced by the head against the bytes that arrive.                  *)
(*  reqbody{...}: a request body sent with Content-Encoding is delivered decoded.            *)
(* Permitted follows RFC 7231 5.3.4.                                                         *)
EXTENDS Integers, Sequences, FiniteSets, TLC
Rej(sig, clause) == [tag |-> "rej", sig |-> sig, clause |-> clause]
E(c, ok, sig) == IF c THEN ok ELSE Rej(sig, "")
Supported == {"gzip", "deflate", "br", "zstd", "identity"}
Listed(items, c) == \E i \in 1..Len(items) : items[i].c = c
QOf(items, c) == LET i == CHOOSE i \in 1..Len(items) : items[i].c = c /\ \A j \in 1..Len(items) : items[j].c = c => i <= j IN items[i].q
Acceptable(items, c) ==
  IF Len(items) = 0 THEN TRUE       \* no header (or an empty one): anything goes
  ELSE IF Listed(items, c) THEN QOf(items, c) > 0
  ELSE IF Listed(items, "*") THEN QOf(items, "*") > 0
  ELSE c = "identity"               \* identity stays acceptable unless excluded explicitly or by *;q=0
Permitted(items) == {c \in Supported : Acceptable(items, c)}
RefInit == [tag |-> "ok"]
RefStep(rs, e) ==
  CASE e.ev = "neg" ->
         LET P == Permitted(e.items) IN
         \* 406 is a refusal to choose: tolerated unless identity is acceptable or a supported coding is listed by name with q > 0
         \* (honouring "*" by picking some supported coding is permitted, not required, by the property)
         IF e.status = 406 THEN E(~Acceptable(e.items, "identity") /\ ~(\E c \in Supported : Listed(e.items, c) /\ QOf(e.items, c) > 0), rs,
                                  "C13/Negotiate/406-although-a-listed-coding-is-acceptable")
         ELSE E(e.chosen \in P, rs,
                IF e.chosen = "identity" /\ e.incompressible THEN "C13/Negotiate/identity-forced-by-content-type-although-refused"
                ELSE "C13/Negotiate/chosen-coding-not-permitted/" \o e.chosen)
    [] e.ev = "body" ->
         E(e.terminated,
          E(e.decoded_ok,
           E(~e.must_pass \/ (e.label = e.orig_label /\ e.unchanged),
            E(e.clen = -1 \/ e.clen = e.wire_len, rs, "C13/Length/stale-content-length"),
            "C13/PassThrough/response-was-re-encoded/" \o e.why),
           "C13/Lossless/decoded-body-differs/" \o e.label),
          "C13/Terminate/body-stream-does-not-end")
    \* the same response as read from a keep-alive HTTP/1.1 connection by a byte-level client: the framing the head
    \* announces must delimit exactly the encoded body (no stale length, no body that only a close would end)
    [] e.ev = "wire" ->
         \* a body that only the end of the connection delimits is acceptable on a keep-alive request only if the response says so
         E(~e.timed_out /\ e.complete /\ (e.framing = "close" => e.conn_close),
          E(e.framing # "cl" \/ e.cl = e.got,
           E(e.decoded_ok, rs, "C13/Wire/decoded-body-differs/" \o e.label),
           "C13/Wire/stale-content-length"),
          IF e.framing = "cl" THEN "C13/Wire/stale-content-length"
          ELSE IF e.framing = "close" THEN "C13/Wire/body-not-delimited" ELSE "C13/Wire/body-incomplete")
    [] e.ev = "reqbody" -> E(e.decoded_ok, rs, "C13/Request/decoded-body-differs/" \o e.coding)
    [] e.ev = "Panic" -> Rej("C19/Panic", "")
    [] OTHER -> rs
=======================================================================================
