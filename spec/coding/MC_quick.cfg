SPECIFICATION Spec
CONSTANTS
  Codings = {"gzip", "br", "identity", "*", "x-unknown", "deflate"}
  Qs = {0, 5, 10}
  MaxItems = 2
  ChunkKinds = {"empty", "small", "large"}
  MaxChunks = 4
INVARIANTS NegOk FedInOrder FinishOnce Terminates EmitCase
CHECK_DEADLOCK FALSE
