------------------------------------ MODULE MpRef ------------------------------------
(* Property-level specification of C15 (multipart/form-data parsing) as a monitor over    *)
(* what the consumer of actix_multipart::Multipart observes:                              *)
(*   Reset{fields, complete, lie}  ground truth: the generator's own field list           *)
(*        [name, len] (content compared byte-for-byte by the harness -> ok flags),         *)
(*        complete = the body is well formed and not truncated, lie = some per-field       *)
(*        Content-Length header disagrees with the boundary grammar                        *)
(*   Field{name_ok}  FieldEnd{n, ok}  End  Err{kind}  Stall                                *)
(*   Held{peak, limit, chunk}  what the parser held at most, for runs with a buffer limit  *)
(* RFC 2046 5.1.1 / RFC 7578: parts are delimited by CRLF "--" boundary, whatever the      *)
(* content looks like and however the stream is cut; a per-part Content-Length is ignored. *)
EXTENDS Integers, Sequences, TLC

Rej(sig, clause) == [tag |-> "rej", sig |-> sig, clause |-> clause]
E(c, ok, sig) == IF c THEN ok ELSE Rej(sig, "")
RefInit(e) == [tag |-> "ok", fields |-> e.fields, complete |-> e.complete, lie |-> e.lie, nxt |-> 1, inField |-> FALSE, ended |-> FALSE]
NF(rs) == Len(rs.fields)
Suffix(rs) == IF rs.lie THEN "/part-content-length-trusted" ELSE ""

RefStep(rs, e) ==
  CASE e.ev = "Field" ->
         E(~rs.ended /\ ~rs.inField /\ rs.nxt <= NF(rs), 
           E(e.name_ok, [rs EXCEPT !.inField = TRUE], "C15/Fields/name-or-headers-differ" \o Suffix(rs)),
           "C15/Fields/field-that-was-not-sent" \o Suffix(rs))
    [] e.ev = "FieldEnd" ->
         E(rs.inField,
           E(e.n = rs.fields[rs.nxt].len /\ e.ok, [rs EXCEPT !.inField = FALSE, !.nxt = @ + 1],
             (IF e.n > rs.fields[rs.nxt].len THEN "C15/Fields/content-overlong-or-merged" 
              ELSE IF e.n < rs.fields[rs.nxt].len THEN "C15/Fields/content-cut" ELSE "C15/Fields/content-differs") \o Suffix(rs)),
           "C15/Fields/end-without-field")
    [] e.ev = "End" ->
         E(rs.complete /\ rs.nxt = NF(rs) + 1 /\ ~rs.inField, [rs EXCEPT !.ended = TRUE],
           (IF ~rs.complete THEN "C15/End/clean-end-of-malformed-or-truncated-body" ELSE "C15/End/fields-missing") \o Suffix(rs))
    [] e.ev = "Err" ->
         E(~rs.complete, [rs EXCEPT !.ended = TRUE], "C15/Err/well-formed-body-rejected/" \o e.kind \o Suffix(rs))
    \* the parser buffers no more than its configured limit: heap high-water mark of the run against limit + one incoming chunk
    \* (twice, because a growing buffer doubles its capacity) + a fixed allowance for the parser's own small allocations
    [] e.ev = "Held" -> E(e.peak <= 2 * e.limit + 2 * e.chunk + 16384, rs, "C15/Held/parser-buffered-beyond-its-limit")
    [] e.ev = "Stall" -> Rej("C15/Stall/no-result-after-end-of-stream" \o Suffix(rs), "")
    [] e.ev = "Panic" -> Rej("C19/Panic", "")
    [] OTHER -> rs
=======================================================================================
