SPECIFICATION Spec
CONSTANTS
  MaxLen = 3
  Alphabet = {"X", "CR", "LF", "D", "P"}
  Truncate = TRUE
  DEV_Lookahead4 = FALSE
  DEV_EofPending = FALSE
INVARIANTS ContentExact PrefixOnly NoFalseError NotStuck EmitCase
VIEW View
CHECK_DEADLOCK FALSE
