------------------------------------ MODULE MpScan ------------------------------------
(* Implementation-shaped model of the field-content scanner of actix-multipart             *)
(* (InnerField::read_stream in field.rs: CR search with a 4-byte look-ahead, the special    *)
(* case for a buffer that starts with CR) over a one-byte-per-symbol alphabet:              *)
(*   X data, CR, LF, D '-', P Q (the boundary is "PQ").                                    *)
(* One field with content c is followed by the delimiter CR LF D D P Q and a tail; the      *)
(* environment delivers the stream under every segmentation, optionally truncated.          *)
(* Checked against the boundary grammar: the content delivered is exactly c, the end of the *)
(* field is recognised exactly at the delimiter, and a truncated stream yields an error,    *)
(* never an endless Pending.                                                                *)
EXTENDS Integers, Sequences, FiniteSets, TLC, Json
CONSTANTS MaxLen, Alphabet, Truncate,
          DEV_Lookahead4,     \* pinned tree: the leading-CR boundary check needs len > 4
          DEV_EofPending,     \* pinned tree: waits for more data even after end of stream
          DEV_BareCr          \* before its repair: a lone CR followed by "--" was also taken for the start of a delimiter
VARIABLES content, stream, fed, cut, buf, eof, outc, state, hist

Delim == <<"CR", "LF", "D", "D", "P", "Q">>
TailOk == <<"CR", "LF">>            \* what follows the boundary on a well-formed body (next part / closing elided)
Contents == UNION {[1..n -> Alphabet] : n \in 0..MaxLen}
(* RFC 2046: the delimiter must not occur inside the content *)
HasDelim(s) == \E i \in 1..Len(s) : i + 5 <= Len(s) /\ SubSeq(s, i, i + 5) = Delim
(* the first delimiter of content \o Delim must be the appended one *)
Legal(c) == LET full == c \o Delim IN \A i \in 1..Len(c) : ~(i + 5 <= Len(full) /\ SubSeq(full, i, i + 5) = Delim)

Init ==
  /\ content \in {c \in Contents : Legal(c)}
  /\ stream = content \o Delim \o TailOk
  /\ cut \in (IF Truncate THEN 0..Len(stream) ELSE {Len(stream)})   \* the body ends after `cut` symbols
  /\ fed = 0 /\ buf = <<>> /\ eof = FALSE /\ outc = <<>> /\ state = "reading" /\ hist = <<>>

Deliver ==
  /\ state = "reading" /\ fed < cut
  /\ \E k \in 1..(cut - fed) :
       /\ buf' = buf \o SubSeq(stream, fed + 1, fed + k) /\ fed' = fed + k /\ hist' = Append(hist, k)
  /\ UNCHANGED <<content, stream, cut, eof, outc, state>>
Eof ==
  /\ state = "reading" /\ fed = cut /\ ~eof /\ eof' = TRUE
  /\ UNCHANGED <<content, stream, cut, fed, buf, outc, state, hist>>

(* index of the first CR at or after position p (1-based), 0 if none *)
FindCR(b, p) == IF \E i \in p..Len(b) : b[i] = "CR" THEN CHOOSE i \in p..Len(b) : b[i] = "CR" /\ \A j \in p..(i-1) : b[j] # "CR" ELSE 0
BLike(b, c) == \* boundary-like at 1-based index c (needs c + 3 <= Len(b))
  (b[c] = "CR" /\ b[c+1] = "LF" /\ b[c+2] = "D" /\ b[c+3] = "D") \/ (DEV_BareCr /\ b[c] = "CR" /\ b[c+1] = "D" /\ b[c+2] = "D")
RECURSIVE Scan(_, _)
Scan(b, p) ==        \* the `loop` of read_stream; returns [k, n]
  LET c == FindCR(b, p) IN
  IF c = 0 THEN [k |-> "chunk", n |-> Len(b)]
  ELSE IF c + 3 > Len(b) THEN
       (IF c > 1 THEN [k |-> "chunk", n |-> c - 1]
        ELSE IF eof /\ ~DEV_EofPending THEN [k |-> "err", n |-> 0] ELSE [k |-> "pending", n |-> 0])
  ELSE IF BLike(b, c) THEN (IF c # 1 THEN [k |-> "chunk", n |-> c - 1] ELSE Scan(b, c + 1))
  ELSE Scan(b, c + 1)
ReadStream(b) ==
  LET len == Len(b) IN
  IF len = 0 THEN (IF eof THEN [k |-> "err", n |-> 0] ELSE [k |-> "pending", n |-> 0])
  ELSE
  LET lead == (IF DEV_Lookahead4 THEN len > 4 ELSE len >= 4) /\ b[1] = "CR"
      blen == IF ~lead THEN 0
              ELSE IF b[2] = "LF" /\ b[3] = "D" /\ b[4] = "D" THEN 4
              ELSE IF DEV_BareCr /\ b[2] = "D" /\ b[3] = "D" THEN 3 ELSE 0
  IN IF blen > 0 /\ len < blen + 2 THEN (IF eof /\ ~DEV_EofPending THEN [k |-> "err", n |-> 0] ELSE [k |-> "pending", n |-> 0])
     ELSE IF blen > 0 /\ b[blen + 1] = "P" /\ b[blen + 2] = "Q" THEN [k |-> "boundary", n |-> 0]
     ELSE Scan(b, 1)

Poll ==
  /\ state = "reading"
  /\ LET r == ReadStream(buf) IN
     CASE r.k = "chunk"    -> /\ outc' = outc \o SubSeq(buf, 1, r.n) /\ buf' = SubSeq(buf, r.n + 1, Len(buf)) /\ state' = state
       [] r.k = "boundary" -> /\ state' = "field-ended" /\ UNCHANGED <<outc, buf>>
       [] r.k = "err"      -> /\ state' = "error" /\ UNCHANGED <<outc, buf>>
       [] r.k = "pending"  -> /\ (fed < cut \/ ~eof) /\ state' = state /\ UNCHANGED <<outc, buf>>   \* waits for the environment
  /\ UNCHANGED <<content, stream, fed, cut, eof, hist>>
Next == Deliver \/ Eof \/ Poll
Spec == Init /\ [][Next]_<<content, stream, fed, cut, buf, eof, outc, state, hist>>

(* the boundary grammar *)
ContentExact == state = "field-ended" => outc = content
PrefixOnly == \A i \in 1..Len(outc) : i <= Len(content) /\ outc[i] = content[i]
Complete == cut >= Len(content) + Len(Delim)
NoFalseError == state = "error" => ~Complete
(* ErrNotHang: once the whole (possibly truncated) body and the end of stream are in, the reader is never left pending *)
NotStuck == (state = "reading" /\ eof /\ fed = cut) => ReadStream(buf).k # "pending"
Terminal == state # "reading"
EmitCase == Terminal => PrintT(<<"CASE", ToJson([content |-> content, cut |-> cut, segs |-> hist, total |-> Len(stream)])>>)
View == <<content, cut, fed, buf, eof, outc, state>>
=======================================================================================
