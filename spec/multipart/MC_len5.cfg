SPECIFICATION Spec
CONSTANTS
  MaxLen = 5
  Alphabet = {"X", "CR", "LF", "D", "P", "Q"}
  Truncate = FALSE
  DEV_Lookahead4 = FALSE
  DEV_EofPending = FALSE
  DEV_BareCr = FALSE
INVARIANTS ContentExact PrefixOnly NoFalseError NotStuck EmitCase
VIEW View
CHECK_DEADLOCK FALSE
