SPECIFICATION Spec
CONSTANTS
  NX = 4
  Limit = 2
  Ends = {"complete", "cut", "extra", "close-header", "drop", "hcut"}
  DEV_EofIsCleanEnd = TRUE
INVARIANTS WithinLimit NoDirtyReuse CompleteOrError EmitCase
CHECK_DEADLOCK FALSE
