----------------------------------- MODULE ClientRef -----------------------------------
(* Property-level specification of C17 (awc HTTP/1 client) as a monitor over a scripted    *)
(* server and what the application sees:                                                    *)
(*   Reset{ex, limit}  ground truth per exchange x: status, framing ("cl"|"chunked"|"eof"), *)
(*        body length, cut (the server closes after `cut` body bytes; -1: not cut),         *)
(*        persistent (the response allows reuse), extra (the server writes further bytes    *)
(*        after the message), drop (the application drops the body unread), hcut (the server *)
(*        closes after `hcut` bytes of the head, before it is complete; -1: not)            *)
(*   Open{c, open}     a new connection c was opened; `open` connections now exist          *)
(*   Req{x, c}         request x reached the server on connection c                         *)
(*   Resp{x, status}   Body{x, outcome, n, ok}   Fail{x}                                    *)
EXTENDS Integers, Sequences, FiniteSets, TLC
Rej(sig, clause) == [tag |-> "rej", sig |-> sig, clause |-> clause]
E(c, ok, sig) == IF c THEN ok ELSE Rej(sig, "")
RefInit(e) == [tag |-> "ok", ex |-> e.ex, limit |-> e.limit, conn |-> [x \in 1..Len(e.ex) |-> 0], lastOn |-> <<>>, maxOpen |-> 0]
Cut(x) == x.cut >= 0 /\ x.cut < x.n
\* the server closed inside the response head (after hcut bytes, before the blank line): no response exists, only an error can be reported
HCut(x) == x.hcut >= 0
\* may connection c be used again after exchange y was served on it?
\* (extra: bytes the server wrote after the message are still unread in the socket when the exchange ends)
Reusable(y) == y.persistent /\ ~Cut(y) /\ ~HCut(y) /\ ~y.drop /\ ~y.extra /\ y.framing # "eof"
RefStep(rs, e) ==
  CASE e.ev = "Open" -> E(e.open <= rs.limit, [rs EXCEPT !.maxOpen = IF e.open > @ THEN e.open ELSE @], "C17/Pool/more-connections-than-the-limit")
    [] e.ev = "Req" ->
         \* a request arriving on a connection that already served an exchange: that exchange must have been read to its end
         LET prev == {y \in 1..Len(rs.ex) : rs.conn[y] = e.c /\ y # e.x} IN
         E(\A y \in prev : Reusable(rs.ex[y]), [rs EXCEPT !.conn[e.x] = e.c],
           IF \E y \in prev : rs.ex[y].extra THEN "C17/Pool/connection-with-unread-leftover-bytes-reused"
           ELSE IF \E y \in prev : rs.ex[y].drop THEN "C17/Pool/connection-reused-after-body-dropped-early"
           ELSE "C17/Pool/non-persistent-or-cut-connection-reused")
    [] e.ev = "Resp" -> E(e.status = rs.ex[e.x].status, E(~HCut(rs.ex[e.x]), rs, "C17/Resp/response-delivered-from-an-incomplete-head"),
                          "C17/Resp/response-of-another-exchange-or-leftovers")
    [] e.ev = "Body" ->
         LET x == rs.ex[e.x] IN
         IF e.outcome = "ok"
         THEN E(~Cut(x), E(e.n = x.n /\ e.ok, rs, "C17/Body/delivered-body-differs"),
                "C17/Body/short-body-reported-as-success/" \o x.framing)
         ELSE IF e.outcome = "hang" THEN E(Cut(x), rs, "C17/Body/complete-body-never-delivered")
         ELSE E(Cut(x) \/ x.bad, rs, "C17/Body/complete-body-reported-as-error")
    [] e.ev = "Fail" -> IF e.x >= 1 /\ e.x <= Len(rs.ex) /\ HCut(rs.ex[e.x]) THEN rs
                        ELSE Rej("C17/Fail/exchange-failed-although-the-server-answered", "")
    [] e.ev = "Panic" -> Rej("C19/Panic", "")
    [] OTHER -> rs
=======================================================================================
