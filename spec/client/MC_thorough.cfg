SPECIFICATION Spec
CONSTANTS
  NX = 5
  Limit = 3
  Ends = {"complete", "cut", "extra", "close-header", "drop", "hcut"}
  DEV_EofIsCleanEnd = TRUE
INVARIANTS WithinLimit NoDirtyReuse CompleteOrError EmitCase
CHECK_DEADLOCK FALSE
