SPECIFICATION Spec
CONSTANTS
  NX = 5
  Limit = 3
  Ends = {"complete", "cut", "extra", "close-header", "drop"}
  DEV_EofIsCleanEnd = TRUE
INVARIANTS WithinLimit NoDirtyReuse CompleteOrError EmitCase
CHECK_DEADLOCK FALSE
