----------------------------------- MODULE ClientConn -----------------------------------
(* Implementation-shaped model of the awc connection pool and HTTP/1 exchange               *)
(* (awc/src/client/pool.rs: permits, idle queue, ConnectionCheckFuture Live/Tainted/Skip;   *)
(* h1proto.rs PlStream: release on the end-of-body item only).  Exchanges end completely,   *)
(* are cut by the server (in the body, or already in the head: "hcut"), carry extra bytes,  *)
(* say connection: close, or are dropped early by the application.  Checked: in-use connections never exceed the limit, a connection with  *)
(* unread bytes or an unfinished exchange is never handed out again.                        *)
(* DEV_EofIsCleanEnd mirrors PlStream treating connection EOF as a clean end of body.        *)
EXTENDS Integers, Sequences, FiniteSets, TLC, Json
CONSTANTS NX, Limit, Ends, DEV_EofIsCleanEnd
VARIABLES conns, next, hist, outcome, served

ConnIds == 1..NX
Init == /\ conns = [c \in ConnIds |-> [st |-> "none", dirty |-> FALSE]] /\ next = 1 /\ hist = <<>>
        /\ outcome = [x \in 1..NX |-> "none"] /\ served = [x \in 1..NX |-> 0]
Open == Cardinality({c \in ConnIds : conns[c].st \in {"idle", "busy"}})
InUse == Cardinality({c \in ConnIds : conns[c].st = "busy"})
\* acquire: reuse an idle connection that passes the liveness check, drop tainted ones, else connect if a permit is free
Start(x) ==
  /\ x = next /\ x <= NX /\ InUse < Limit
  /\ LET idle == {c \in ConnIds : conns[c].st = "idle"}
         live == {c \in idle : ~conns[c].dirty}
     IN IF live # {}
        THEN LET c == CHOOSE c \in live : TRUE IN
             /\ conns' = [d \in ConnIds |-> IF d = c THEN [conns[d] EXCEPT !.st = "busy"]
                                            ELSE IF d \in idle /\ conns[d].dirty THEN [conns[d] EXCEPT !.st = "closed"] ELSE conns[d]]
             /\ served' = [served EXCEPT ![x] = c]
        ELSE LET c == CHOOSE c \in ConnIds : conns[c].st = "none" IN
             /\ conns' = [d \in ConnIds |-> IF d = c THEN [st |-> "busy", dirty |-> FALSE]
                                            ELSE IF d \in idle THEN [conns[d] EXCEPT !.st = "closed"] ELSE conns[d]]
             /\ served' = [served EXCEPT ![x] = c]
  /\ next' = next + 1 /\ UNCHANGED <<hist, outcome>>
Finish(x) ==
  /\ served[x] # 0 /\ outcome[x] = "none"
  /\ \E how \in Ends :
       LET c == served[x] IN
       /\ hist' = Append(hist, [x |-> x, how |-> how])
       /\ outcome' = [outcome EXCEPT ![x] = CASE how = "complete" -> "ok" [] how = "close-header" -> "ok" [] how = "extra" -> "ok"
                                                 [] how = "cut" -> (IF DEV_EofIsCleanEnd THEN "ok-short" ELSE "err") [] how = "drop" -> "dropped"
                                                 [] how = "hcut" -> "err"]
       /\ conns' = [conns EXCEPT ![c] = CASE how = "complete" -> [st |-> "idle", dirty |-> FALSE]
                                          [] how = "extra" -> [st |-> "idle", dirty |-> TRUE]
                                          [] OTHER -> [st |-> "closed", dirty |-> FALSE]]
  /\ UNCHANGED <<next, served>>
Next == \E x \in 1..NX : Start(x) \/ Finish(x)
Spec == Init /\ [][Next]_<<conns, next, hist, outcome, served>>
WithinLimit == InUse <= Limit /\ Open <= NX
NoDirtyReuse == \A c \in ConnIds : conns[c].st = "busy" => ~conns[c].dirty
\* masked form (DESIGN.md 2.5): a short success is explained only by the recorded deviation DEV_EofIsCleanEnd
CompleteOrError == \A x \in 1..NX : outcome[x] = "ok-short" => DEV_EofIsCleanEnd
EmitCase == (\A x \in 1..NX : outcome[x] # "none") => PrintT(<<"CASE", ToJson([ends |-> hist, limit |-> Limit])>>)
=======================================================================================
