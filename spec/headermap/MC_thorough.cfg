SPECIFICATION Spec
CONSTANTS
  Spellings = {"a", "A", "b", "C"}
  Values = {1, 2, 3}
  MaxTotal = 4
  MaxSteps = 60
  Preds = {"v1", "notv1", "ka", "none"}
  DrainCuts = {0, 1, 2, 3, 9}
  DEV_RemovedHintNone = FALSE
INVARIANTS RefAccepts Abstraction NoEmptyLists Emit
VIEW View
CHECK_DEADLOCK FALSE
