------------------------------- MODULE HeaderMapMC -------------------------------
(* Implementation-shaped model of actix-http/src/header/map.rs, checked against the  *)
(* monitor HeaderMapRef:                                                             *)
(*   inner : HashMap<HeaderName, SmallVec<HeaderValue>>  -> function name -> Seq,    *)
(*           "absent" for a missing key (the code keeps the invariant that no key    *)
(*           maps to an empty list; retain re-establishes it)                        *)
(*   Iter / Drain / IntoIter carry a `remaining` counter initialised from len() and  *)
(*   decremented per yielded value; Keys delegates to the hash map; Removed wraps    *)
(*   Option<smallvec::IntoIter>.                                                     *)
(* Hash iteration order is a nondeterministic permutation of the present keys.       *)
(* Every action produces the same event record the Rust harness logs for that call   *)
(* and feeds it to RefStep; the invariant is that the monitor never rejects.         *)
EXTENDS HeaderMapRef, Json
CONSTANTS Spellings, Values, MaxTotal, MaxSteps, Preds, DrainCuts,
          DEV_RemovedHintNone     \* TRUE mirrors Removed::size_hint returning (0, None) for an absent key
VARIABLES inner, rs, steps, hist, last

Absent == <<0>>   \* values are >= 1, so <<0>> is not a value list (TLC cannot compare a string with a sequence)
Present == {n \in CNames : inner[n] # Absent}
ValsOf(n) == IF inner[n] = Absent THEN <<>> ELSE inner[n]
ImplLen == Len(ValsOf("a")) + Len(ValsOf("b")) + Len(ValsOf("c"))

Perms(S) == {p \in [1..Cardinality(S) -> S] : \A i, j \in 1..Cardinality(S) : p[i] = p[j] => i = j}
Flat(order) ==   \* all <<name, value>> pairs following a key order
  LET F[i \in 0..Len(order)] ==
        IF i = 0 THEN <<>>
        ELSE F[i-1] \o [j \in 1..Len(inner[order[i]]) |-> <<order[i], inner[order[i]][j]>>]
  IN F[Len(order)]
FlatDrain(order) ==
  LET F[i \in 0..Len(order)] ==
        IF i = 0 THEN <<>>
        ELSE F[i-1] \o [j \in 1..Len(inner[order[i]]) |-> <<IF j = 1 THEN order[i] ELSE "", inner[order[i]][j]>>]
  IN F[Len(order)]
Take(s, n) == [i \in 1..(IF n < Len(s) THEN n ELSE Len(s)) |-> s[i]]
(* hints produced by an iterator with a `remaining` counter started at `start` *)
CounterHints(start, taken) == [i \in 1..taken + 1 |-> <<start - (i - 1), start - (i - 1)>>]
RemovedHint(old) == IF old = Absent THEN (IF DEV_RemovedHintNone THEN <<0, -1>> ELSE <<0, 0>>) ELSE <<Len(old), Len(old)>>
OldVals(old) == IF old = Absent THEN <<>> ELSE old

Obs(e) == rs' = RefStep(rs, e)
Op(o) == /\ steps < MaxSteps /\ steps' = steps + 1 /\ hist' = Append(hist, o) /\ last' = o

Insert == \E k \in Spellings, v \in Values :
  LET n == Canon(k) old == inner[n] IN
  /\ Op([op |-> "insert", k |-> k, v |-> v])
  /\ inner' = [inner EXCEPT ![n] = <<v>>]
  /\ Obs([op |-> "insert", k |-> k, v |-> v, removed |-> OldVals(old), hint |-> RemovedHint(old), hint_after |-> (IF old = Absent THEN RemovedHint(Absent) ELSE <<0, 0>>), empty |-> (old = Absent)])
AppendV == \E k \in Spellings, v \in Values :
  LET n == Canon(k) IN
  /\ ImplLen < MaxTotal
  /\ Op([op |-> "append", k |-> k, v |-> v])
  /\ inner' = [inner EXCEPT ![n] = IF @ = Absent THEN <<v>> ELSE Append(@, v)]
  /\ Obs([op |-> "append", k |-> k, v |-> v])
Remove == \E k \in Spellings :
  LET n == Canon(k) old == inner[n] IN
  /\ Op([op |-> "remove", k |-> k])
  /\ inner' = [inner EXCEPT ![n] = Absent]
  /\ Obs([op |-> "remove", k |-> k, removed |-> OldVals(old), hint |-> RemovedHint(old), hint_after |-> (IF old = Absent THEN RemovedHint(Absent) ELSE <<0, 0>>), empty |-> (old = Absent)])
Get == \E k \in Spellings :
  LET n == Canon(k) IN
  /\ Op([op |-> "get", k |-> k]) /\ UNCHANGED inner
  /\ Obs([op |-> "get", k |-> k, r |-> (IF inner[n] = Absent THEN 0 ELSE inner[n][1]), all |-> ValsOf(n), contains |-> (inner[n] # Absent)])
GetMut == \E k \in Spellings, v \in Values :
  LET n == Canon(k) IN
  /\ Op([op |-> "get_mut", k |-> k, v |-> v])
  /\ inner' = IF inner[n] = Absent THEN inner ELSE [inner EXCEPT ![n][1] = v]
  /\ Obs([op |-> "get_mut", k |-> k, v |-> v, existed |-> (inner[n] # Absent)])
Stat ==
  /\ Op([op |-> "stat"]) /\ UNCHANGED inner
  /\ Obs([op |-> "stat", len |-> ImplLen, len_keys |-> Cardinality(Present), is_empty |-> (Present = {})])
IterOp == \E which \in {"iter", "into_iter"} : \E order \in Perms(Present) :
  /\ Op([op |-> which]) /\ UNCHANGED inner
  /\ Obs([op |-> which, items |-> Flat(order), hints |-> CounterHints(ImplLen, ImplLen)])
Keys == \E order \in Perms(Present) :
  /\ Op([op |-> "keys"]) /\ UNCHANGED inner
  /\ Obs([op |-> "keys", names |-> order, hints |-> CounterHints(Len(order), Len(order))])
Drain == \E c \in DrainCuts : \E order \in Perms(Present) :
  /\ Op([op |-> "drain", c |-> c])
  /\ inner' = [n \in CNames |-> Absent]
  /\ LET items == Take(FlatDrain(order), c) IN
     Obs([op |-> "drain", c |-> c, items |-> items, hints |-> CounterHints(ImplLen, Len(items))])
Retain == \E p \in Preds :
  /\ Op([op |-> "retain", p |-> p])
  /\ inner' = [n \in CNames |-> IF inner[n] = Absent THEN Absent
                                ELSE LET kept == SelectSeq(inner[n], LAMBDA v : KeepVal(p, n, v))
                                     IN IF kept = <<>> THEN Absent ELSE kept]
  /\ Obs([op |-> "retain", p |-> p])
Clear ==
  /\ Op([op |-> "clear"]) /\ inner' = [n \in CNames |-> Absent] /\ Obs([op |-> "clear"])
ToHttp == \E order \in Perms(Present) :
  /\ Op([op |-> "to_http"]) /\ UNCHANGED inner
  /\ Obs([op |-> "to_http", items |-> Flat(order)])
RoundTrip ==   \* into http::HeaderMap and back (from_drain re-appends in order)
  \E order \in Perms(Present) :
  /\ Op([op |-> "from_http", items |-> Flat(order)]) /\ UNCHANGED inner
  /\ Obs([op |-> "from_http", items |-> Flat(order)])

Init == /\ inner = [n \in CNames |-> Absent] /\ rs = RefInit /\ steps = 0 /\ hist = <<>> /\ last = [op |-> "none"]
Next == Insert \/ AppendV \/ Remove \/ Get \/ GetMut \/ Stat \/ IterOp \/ Keys \/ Drain \/ Retain \/ Clear \/ ToHttp \/ RoundTrip
vars == <<inner, rs, steps, hist, last>>
Spec == Init /\ [][Next]_vars

(* design-level result: the implementation-shaped model refines the multimap monitor *)
RefAccepts == rs.tag = "ok"
(* the abstraction function: the monitor's multimap is exactly the map's content *)
Abstraction == rs.tag = "ok" => \A n \in CNames : rs.m[n] = ValsOf(n)
NoEmptyLists == \A n \in CNames : inner[n] # <<>>
(* replay emission: one shortest history per distinct (state, last operation) *)
Emit == steps > 0 => PrintT(<<"CASE", ToJson([ops |-> hist])>>)
View == <<inner, last>>
=================================================================================
