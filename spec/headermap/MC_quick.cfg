SPECIFICATION Spec
CONSTANTS
  Spellings = {"a", "A", "b"}
  Values = {1, 2, 3}
  MaxTotal = 3
  MaxSteps = 60
  Preds = {"v1", "notv1", "ka", "none"}
  DrainCuts = {0, 1, 2, 9}
  DEV_RemovedHintNone = FALSE
INVARIANTS RefAccepts Abstraction NoEmptyLists Emit
VIEW View
CHECK_DEADLOCK FALSE
