------------------------------ MODULE HeaderMapRef ------------------------------
(* Property-level specification of C18: actix_http::header::HeaderMap is an          *)
(* order-preserving, case-insensitive multimap.  Written as a deterministic monitor  *)
(* over the observable results of the public API (DESIGN.md 2.1b).  The monitor      *)
(* state is the reference multimap m : canonical name -> sequence of values.         *)
EXTENDS Integers, Sequences, FiniteSets, TLC

CNames == {"a", "b", "c"}
Lower  == [a |-> "a", A |-> "a", b |-> "b", B |-> "b", c |-> "c", C |-> "c"]
Canon(k) == Lower[k]

Rej(sig, clause) == [tag |-> "rej", sig |-> sig, clause |-> clause]
Expect(c, ok, sig, clause) == IF c THEN ok ELSE Rej(sig, clause)

RefInit == [tag |-> "ok", m |-> [n \in CNames |-> <<>>]]

Total(m)  == Len(m["a"]) + Len(m["b"]) + Len(m["c"])
NKeys(m)  == Cardinality({n \in CNames : m[n] # <<>>})
Empty     == [n \in CNames |-> <<>>]

(* items: sequence of <<name, value>>; values of name n in order of appearance *)
Vals(items, n) ==
  LET F[i \in 0..Len(items)] ==
        IF i = 0 THEN <<>> ELSE IF items[i][1] = n THEN Append(F[i-1], items[i][2]) ELSE F[i-1]
  IN F[Len(items)]

IsPrefix(s, t) == Len(s) <= Len(t) /\ \A i \in 1..Len(s) : s[i] = t[i]

(* size hints of an ExactSizeIterator over N items of which `taken` were consumed:   *)
(* hints[i] = <<lo, hi>> observed before the i-th next(), the last after the final   *)
(* next(); hi = -1 encodes None.                                                     *)
HintsExact(h, N, taken) ==
  /\ Len(h) = taken + 1
  /\ \A i \in 1..Len(h) : h[i] = <<N - (i - 1), N - (i - 1)>>

(* pairs with a name on every item (iter, into_iter, to_http): per-name order kept *)
PairsOk(items, m) ==
  /\ Len(items) = Total(m)
  /\ \A n \in CNames : Vals(items, n) = m[n]
  /\ \A i \in 1..Len(items) : items[i][1] \in CNames

(* drain: the name is present on the first value of each group only ("" otherwise) *)
NameAt(items, i) ==
  LET F[j \in 0..i] == IF j = 0 THEN "" ELSE IF items[j][1] # "" THEN items[j][1] ELSE F[j-1]
  IN F[i]
Filled(items) == [i \in 1..Len(items) |-> <<NameAt(items, i), items[i][2]>>]
Markers(items) == {i \in 1..Len(items) : items[i][1] # ""}
DrainOk(items, m, full) ==
  LET f == Filled(items) IN
  /\ Len(items) > 0 => items[1][1] # ""
  /\ \A i, j \in Markers(items) : items[i][1] = items[j][1] => i = j       \* one group per name
  /\ \A i \in 1..Len(items) : f[i][1] \in CNames
  /\ \A n \in CNames :
        /\ IsPrefix(Vals(f, n), m[n])
        /\ (Vals(f, n) # m[n] /\ Vals(f, n) # <<>>) => f[Len(f)][1] = n    \* only the last group may be cut
        /\ full => Vals(f, n) = m[n]

KeepVal(p, n, v) ==
  CASE p = "all"   -> TRUE
    [] p = "none"  -> FALSE
    [] p = "v1"    -> v = 1
    [] p = "notv1" -> v # 1
    [] p = "ka"    -> n = "a"
    [] p = "notka" -> n # "a"
    [] OTHER       -> TRUE
Retained(m, p) == [n \in CNames |-> SelectSeq(m[n], LAMBDA v : KeepVal(p, n, v))]

FromPairs(items) == [n \in CNames |-> Vals(items, n)]

(* sig = "<op>/<what>" is the black-box signature used for known-finding matching *)
RefStep(rs, e) ==
  LET m == rs.m IN
  CASE e.op = "insert" ->
         LET k == Canon(e.k) IN
         Expect(e.removed = m[k] /\ e.empty = (m[k] = <<>>), 
           Expect(e.hint = <<Len(m[k]), Len(m[k])>> /\ e.hint_after = <<0, 0>>, [rs EXCEPT !.m[k] = <<e.v>>],
                  IF m[k] = <<>> THEN "removed-absent/size_hint" ELSE "removed/size_hint", "ExactSize"),
           "insert/removed", "Multimap")
    [] e.op = "append" -> LET k == Canon(e.k) IN [rs EXCEPT !.m[k] = Append(@, e.v)]
    [] e.op = "remove" ->
         LET k == Canon(e.k) IN
         Expect(e.removed = m[k] /\ e.empty = (m[k] = <<>>),
           Expect(e.hint = <<Len(m[k]), Len(m[k])>> /\ e.hint_after = <<0, 0>>, [rs EXCEPT !.m[k] = <<>>],
                  IF m[k] = <<>> THEN "removed-absent/size_hint" ELSE "removed/size_hint", "ExactSize"),
           "remove/removed", "Multimap")
    [] e.op = "get" ->
         LET k == Canon(e.k) IN
         Expect(e.r = (IF m[k] = <<>> THEN 0 ELSE m[k][1]) /\ e.all = m[k] /\ e.contains = (m[k] # <<>>), rs, "get/value", "Multimap")
    [] e.op = "get_mut" ->
         LET k == Canon(e.k) IN
         Expect(e.existed = (m[k] # <<>>), IF m[k] = <<>> THEN rs ELSE [rs EXCEPT !.m[k][1] = e.v], "get_mut/existed", "Multimap")
    [] e.op = "stat" ->
         Expect(e.len = Total(m) /\ e.len_keys = NKeys(m) /\ e.is_empty = (Total(m) = 0), rs, "stat/len", "Lengths")
    [] e.op \in {"iter", "into_iter"} ->
         Expect(PairsOk(e.items, m),
           Expect(HintsExact(e.hints, Total(m), Len(e.items)), rs, e.op \o "/size_hint", "ExactSize"),
           e.op \o "/items", "Multimap")
    [] e.op = "keys" ->
         Expect({e.names[i] : i \in 1..Len(e.names)} = {n \in CNames : m[n] # <<>>} /\ Len(e.names) = NKeys(m),
           Expect(HintsExact(e.hints, NKeys(m), Len(e.names)), rs, "keys/size_hint", "ExactSize"),
           "keys/names", "Multimap")
    [] e.op = "drain" ->
         Expect(Len(e.items) = (IF e.c < Total(m) THEN e.c ELSE Total(m)) /\ DrainOk(e.items, m, e.c >= Total(m)),
           Expect(HintsExact(e.hints, Total(m), Len(e.items)), [rs EXCEPT !.m = Empty], "drain/size_hint", "ExactSize"),
           "drain/items", "Multimap")
    [] e.op = "retain" -> [rs EXCEPT !.m = Retained(m, e.p)]
    [] e.op = "clear"  -> [rs EXCEPT !.m = Empty]
    [] e.op = "to_http" -> Expect(PairsOk(e.items, m), rs, "to_http/pairs", "Conversion")
    [] e.op = "from_http" -> [rs EXCEPT !.m = FromPairs(e.items)]
    [] e.op = "panic" -> Rej("panic/" \o e.during, "NoPanic")
    [] OTHER -> Rej("unknown-op", "Alphabet")
=================================================================================
