SPECIFICATION Spec
CONSTANTS
  Kinds = {"deep", "deep2", "flat", "miss", "smiss"}
  PoolCap = 3
  MaxSteps = 7
  DEV_NoPathReset = FALSE
  DEV_NoAppDataTruncate = FALSE
  DEV_NoExtClear = FALSE
  DEV_NoRpathClear = FALSE
  DEV_NoConnReset = FALSE
INVARIANTS Isolation EmitCase
VIEW View
CHECK_DEADLOCK FALSE
