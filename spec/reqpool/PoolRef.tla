------------------------------------ MODULE PoolRef ------------------------------------
(* C11 as a monitor: every request served by a long-lived service instance must look, to   *)
(* handler and middleware, exactly as it looks to a fresh instance (same = TRUE).           *)
EXTENDS Integers, Sequences, TLC
Rej(sig, clause) == [tag |-> "rej", sig |-> sig, clause |-> clause]
RefInit == [tag |-> "ok", n |-> 0]
RefStep(rs, e) ==
  CASE e.ev = "req" -> IF e.same THEN [rs EXCEPT !.n = @ + 1] ELSE Rej("C11/Isolation/" \o e.diff, "")
    [] e.ev = "Panic" -> Rej("C19/Panic", "")
    [] OTHER -> rs
=======================================================================================
