SPECIFICATION Spec
CONSTANTS
  Kinds = {"deep", "deep2", "flat", "miss", "smiss"}
  PoolCap = 2
  MaxSteps = 5
  DEV_NoPathReset = FALSE
  DEV_NoAppDataTruncate = FALSE
  DEV_NoExtClear = FALSE
  DEV_NoRpathClear = FALSE
  DEV_NoConnReset = FALSE
INVARIANTS Isolation EmitCase
VIEW View
CHECK_DEADLOCK FALSE
