------------------------------------ MODULE ReqPool ------------------------------------
(* Model of HttpRequest pooling (actix-web/src/request.rs Drop, app_service.rs              *)
(* AppInitService::call) checked against the isolation property C11: what a handler can    *)
(* observe about a request is a function of that request and the configuration alone.      *)
(* An object has the fields the code recycles: uri/path state (segments, skip), the        *)
(* app_data stack, request-local extensions, connection data, resource path.  Each action   *)
(* resets exactly the fields the code resets; DEV_* drop one reset (what a regression       *)
(* would do) and must make Isolation fail.                                                  *)
(* Histories (request kinds, whether a clone is kept alive) are emitted for replay through  *)
(* one real service instance; the monitor is the comparison with a fresh instance.          *)
EXTENDS Integers, Sequences, FiniteSets, TLC, Json
CONSTANTS Kinds, PoolCap, MaxSteps,
          DEV_NoPathReset, DEV_NoAppDataTruncate, DEV_NoExtClear, DEV_NoRpathClear, DEV_NoConnReset
VARIABLES objs,      \* object id -> record of fields
          pool,      \* LIFO of free object ids
          live,      \* set of ids currently owned by a request in flight or by a kept clone
          held,      \* ids kept alive by a clone
          nextId, hist, lastSeen, lastKind

(* what the configuration makes of a request of each kind *)
Cfg == [deep  |-> [uri |-> "deep",  segs |-> <<"x", "y">>, data |-> <<"app", "scope">>, rpath |-> <<"s", "r">>, ext |-> {"m"}],
        deep2 |-> [uri |-> "deep2", segs |-> <<"x2", "y2">>, data |-> <<"app", "scope">>, rpath |-> <<"s", "r">>, ext |-> {"m"}],
        flat  |-> [uri |-> "flat",  segs |-> <<>>, data |-> <<"app">>, rpath |-> <<"flat">>, ext |-> {}],
        miss  |-> [uri |-> "miss",  segs |-> <<>>, data |-> <<"app">>, rpath |-> <<>>, ext |-> {}],
        \* inside the scope but no resource of it matches: the scope's id is on the trail, the default service answers
        smiss |-> [uri |-> "smiss", segs |-> <<"x3">>, data |-> <<"app", "scope">>, rpath |-> <<"s">>, ext |-> {}]]
Fresh(k) == [uri |-> Cfg[k].uri, segs |-> <<>>, data |-> <<"app">>, ext |-> {}, conn |-> k, rpath |-> <<>>, matched |-> FALSE]
(* routing + handler: pushes captures, scoped data, resource path; the handler adds its extension *)
Routed(o, k) == [o EXCEPT !.segs = @ \o Cfg[k].segs, !.data = @ \o SubSeq(Cfg[k].data, 2, Len(Cfg[k].data)),
                          !.rpath = @ \o Cfg[k].rpath, !.matched = (Cfg[k].rpath # <<>>), !.ext = @ \cup Cfg[k].ext]
Expected(k) == Routed(Fresh(k), k)

Init == objs = <<>> /\ pool = <<>> /\ live = {} /\ held = {} /\ nextId = 1 /\ hist = <<>> /\ lastSeen = Expected("flat") /\ lastKind = "flat"

Release ==           \* all kept clones are dropped: HttpRequest::drop for each
  /\ held # {} /\ Len(hist) < MaxSteps
  /\ held' = {} /\ live' = live \ held
  /\ hist' = Append(hist, [k |-> "release", hold |-> FALSE])
  /\ UNCHANGED <<nextId, lastSeen, lastKind>>
  /\ LET ids == held
         cleaned(o) == [o EXCEPT !.data = IF DEV_NoAppDataTruncate THEN @ ELSE SubSeq(@, 1, 1),
                                 !.ext = IF DEV_NoExtClear THEN @ ELSE {},
                                 !.conn = IF DEV_NoConnReset THEN @ ELSE "none"]
         room == PoolCap - Len(pool)
         take == IF Cardinality(ids) <= room THEN ids ELSE CHOOSE s \in SUBSET ids : Cardinality(s) = room
         order == CHOOSE q \in [1..Cardinality(take) -> take] : \A i, j \in 1..Cardinality(take) : i # j => q[i] # q[j]
     IN /\ objs' = [i \in 1..Len(objs) |-> IF i \in take THEN cleaned(objs[i]) ELSE objs[i]]
        /\ pool' = pool \o order

ArriveAndDrop(k, hold) ==
  \* Arrive, and if no clone is kept the object goes straight back to the pool (cleanup as in Drop)
  /\ Len(hist) < MaxSteps
  /\ LET fromPool == pool # <<>>
         id == IF fromPool THEN pool[Len(pool)] ELSE nextId
         base == IF fromPool THEN
                   LET o == objs[id] IN
                   [o EXCEPT !.uri = Cfg[k].uri, !.segs = IF DEV_NoPathReset THEN @ ELSE <<>>,
                             !.rpath = IF DEV_NoRpathClear THEN @ ELSE <<>>, !.matched = FALSE, !.conn = k, !.ext = {}]
                 ELSE Fresh(k)
         seen == Routed(base, k)
         cleaned == [seen EXCEPT !.data = IF DEV_NoAppDataTruncate THEN @ ELSE SubSeq(@, 1, 1),
                                 !.ext = IF DEV_NoExtClear THEN @ ELSE {},
                                 !.conn = IF DEV_NoConnReset THEN @ ELSE "none"]
         pool1 == IF fromPool THEN SubSeq(pool, 1, Len(pool) - 1) ELSE pool
         objs1 == IF fromPool THEN [objs EXCEPT ![id] = seen] ELSE Append(objs, seen)
     IN /\ lastSeen' = seen /\ lastKind' = k
        /\ nextId' = IF fromPool THEN nextId ELSE nextId + 1
        /\ hist' = Append(hist, [k |-> k, hold |-> hold])
        /\ IF hold THEN /\ held' = held \cup {id} /\ live' = live \cup {id} /\ objs' = objs1 /\ pool' = pool1
           ELSE /\ held' = held /\ live' = live
                /\ IF Len(pool1) < PoolCap THEN /\ objs' = [objs1 EXCEPT ![id] = cleaned] /\ pool' = Append(pool1, id)
                   ELSE /\ objs' = objs1 /\ pool' = pool1
Next == (\E k \in Kinds, h \in BOOLEAN : ArriveAndDrop(k, h)) \/ Release
Spec == Init /\ [][Next]_<<objs, pool, live, held, nextId, hist, lastSeen, lastKind>>

(* C11: nothing from an earlier request is visible in a later one *)
Isolation == lastSeen = Expected(lastKind)
EmitCase == (Len(hist) = MaxSteps) => PrintT(<<"CASE", ToJson([hist |-> hist])>>)
View == <<objs, pool, held, lastSeen, lastKind, Len(hist)>>
=======================================================================================
