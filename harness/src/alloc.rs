//! Counting allocator: live-heap high-water mark of the harness process (C05, C12, C14, C15).
use std::alloc::{GlobalAlloc, Layout, System};
use std::sync::atomic::{AtomicUsize, Ordering};

pub struct Counting;
static LIVE: AtomicUsize = AtomicUsize::new(0);
static PEAK: AtomicUsize = AtomicUsize::new(0);

unsafe impl GlobalAlloc for Counting {
    unsafe fn alloc(&self, l: Layout) -> *mut u8 {
        let p = System.alloc(l);
        if !p.is_null() {
            let v = LIVE.fetch_add(l.size(), Ordering::Relaxed) + l.size();
            PEAK.fetch_max(v, Ordering::Relaxed);
        }
        p
    }
    unsafe fn dealloc(&self, p: *mut u8, l: Layout) {
        System.dealloc(p, l);
        LIVE.fetch_sub(l.size(), Ordering::Relaxed);
    }
    unsafe fn realloc(&self, p: *mut u8, l: Layout, new: usize) -> *mut u8 {
        let q = System.realloc(p, l, new);
        if !q.is_null() {
            if new >= l.size() {
                let v = LIVE.fetch_add(new - l.size(), Ordering::Relaxed) + (new - l.size());
                PEAK.fetch_max(v, Ordering::Relaxed);
            } else {
                LIVE.fetch_sub(l.size() - new, Ordering::Relaxed);
            }
        }
        q
    }
}
pub fn live() -> usize {
    LIVE.load(Ordering::Relaxed)
}
pub fn peak() -> usize {
    PEAK.load(Ordering::Relaxed)
}
pub fn reset_peak() {
    PEAK.store(LIVE.load(Ordering::Relaxed), Ordering::Relaxed);
}
