use serde_json::Value;
use std::{
    fs::File,
    io::{BufRead, BufReader, BufWriter, Write},
    panic::{catch_unwind, AssertUnwindSafe},
};

pub fn read_cases(path: &str) -> Vec<Value> {
    let f = BufReader::new(File::open(path).unwrap_or_else(|e| panic!("open {path}: {e}")));
    f.lines()
        .map(|l| l.unwrap())
        .filter(|l| !l.trim().is_empty())
        .map(|l| serde_json::from_str(&l).expect("case json"))
        .collect()
}

pub struct TraceOut {
    w: BufWriter<File>,
    pub events: usize,
}

impl TraceOut {
    pub fn create(path: &str) -> Self {
        TraceOut { w: BufWriter::new(File::create(path).unwrap_or_else(|e| panic!("create {path}: {e}"))), events: 0 }
    }
    pub fn emit(&mut self, v: Value) {
        serde_json::to_writer(&mut self.w, &v).unwrap();
        self.w.write_all(b"\n").unwrap();
        self.events += 1;
    }
    pub fn reset(&mut self, run: usize) {
        self.emit(serde_json::json!({"ev": "Reset", "run": run}));
    }
    pub fn finish(mut self) {
        self.w.flush().unwrap();
    }
}

/// Runs `f`, turning a panic of the code under test into data (C19: a panic is an event that no
/// specification action explains).
pub fn guarded<T>(f: impl FnOnce() -> T) -> Result<T, String> {
    catch_unwind(AssertUnwindSafe(f)).map_err(|e| {
        if let Some(s) = e.downcast_ref::<&str>() {
            s.to_string()
        } else if let Some(s) = e.downcast_ref::<String>() {
            s.clone()
        } else {
            "panic".to_string()
        }
    })
}

pub fn quiet_panics() {
    std::panic::set_hook(Box::new(|_| {}));
}
