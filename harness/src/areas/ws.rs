//! C14: WebSocket frame codec (both roles, all segmentations) and handshake, observed through the
//! public `actix_http::ws::{Codec, Message, Frame, Item, handshake}` API (spec/ws/WsRef.tla).
use crate::util::{guarded, TraceOut};
use actix_codec::{Decoder, Encoder};
use actix_http::ws::{self, Codec, Frame, Item, Message};
use bytes::{Bytes, BytesMut};
use serde_json::{json, Value};

fn pat(i: usize, k: usize) -> u8 {
    b'a' + ((i * 3 + k) % 26) as u8
}
fn payload(i: usize, op: u64, len: usize) -> Vec<u8> {
    let mut v: Vec<u8> = (0..len).map(|k| pat(i, k)).collect();
    if op == 8 && len >= 2 {
        v[0] = 0x03;
        v[1] = 0xE8; // 1000 Normal
    }
    v
}
/// independent frame writer (RFC 6455 5.2)
fn write_frame(dst: &mut Vec<u8>, i: usize, fin: bool, op: u64, masked: bool, len: usize, wire_len: usize) {
    dst.push(((fin as u8) << 7) | (op as u8 & 0x0f));
    let m = (masked as u8) << 7;
    if len < 126 {
        dst.push(m | len as u8);
    } else if len <= 65535 {
        dst.push(m | 126);
        dst.extend_from_slice(&(len as u16).to_be_bytes());
    } else {
        dst.push(m | 127);
        dst.extend_from_slice(&(len as u64).to_be_bytes());
    }
    // `wire_len` < len: the frame only *announces* len, the peer never sends that much
    let mut pl = payload(i, op, wire_len.min(len));
    if masked {
        let key = [0x37u8.wrapping_add(i as u8), 0xfa, 0x21, 0x3d ^ (i as u8)];
        dst.extend_from_slice(&key);
        for (k, b) in pl.iter_mut().enumerate() {
            *b ^= key[k % 4];
        }
    }
    dst.extend_from_slice(&pl);
}
/// independent frame reader used to judge what actix's encoder produced
fn read_frame(src: &[u8]) -> Option<(bool, u8, bool, Vec<u8>, usize)> {
    if src.len() < 2 {
        return None;
    }
    let fin = src[0] & 0x80 != 0;
    let op = src[0] & 0x0f;
    let masked = src[1] & 0x80 != 0;
    let mut idx = 2;
    let len = match src[1] & 0x7f {
        126 => {
            let l = u16::from_be_bytes([src[2], src[3]]) as usize;
            idx += 2;
            l
        }
        127 => {
            let l = u64::from_be_bytes(src[2..10].try_into().unwrap()) as usize;
            idx += 8;
            l
        }
        l => l as usize,
    };
    let key = if masked {
        let k = [src[idx], src[idx + 1], src[idx + 2], src[idx + 3]];
        idx += 4;
        Some(k)
    } else {
        None
    };
    if src.len() < idx + len {
        return None;
    }
    let mut pl = src[idx..idx + len].to_vec();
    if let Some(k) = key {
        for (j, b) in pl.iter_mut().enumerate() {
            *b ^= k[j % 4];
        }
    }
    Some((fin, op, masked, pl, idx + len))
}

fn frame_obs(fr: &Frame) -> (bool, u64, Vec<u8>) {
    match fr {
        Frame::Text(b) => (true, 1, b.to_vec()),
        Frame::Binary(b) => (true, 2, b.to_vec()),
        Frame::Continuation(Item::FirstText(b)) => (false, 1, b.to_vec()),
        Frame::Continuation(Item::FirstBinary(b)) => (false, 2, b.to_vec()),
        Frame::Continuation(Item::Continue(b)) => (false, 0, b.to_vec()),
        Frame::Continuation(Item::Last(b)) => (true, 0, b.to_vec()),
        Frame::Ping(b) => (true, 9, b.to_vec()),
        Frame::Pong(b) => (true, 10, b.to_vec()),
        Frame::Close(None) => (true, 8, vec![]),
        Frame::Close(Some(r)) => {
            let mut v = u16::from(r.code).to_be_bytes().to_vec();
            if let Some(d) = &r.description {
                v.extend_from_slice(d.as_bytes());
            }
            (true, 8, v)
        }
    }
}

fn enc_check(i: usize, fin: bool, op: u64, len: usize, peer_is_client: bool, out: &mut TraceOut) {
    // the peer role encodes the message with actix's own encoder; the independent reader judges it
    let pl = payload(i, op, len);
    let mut codec = if peer_is_client { Codec::new().client_mode() } else { Codec::new() };
    let mut scratch = BytesMut::new();
    let msg = match (op, fin) {
        (1, true) => Message::Text(String::from_utf8(pl.clone()).unwrap().into()),
        (2, true) => Message::Binary(Bytes::from(pl.clone())),
        (9, true) => Message::Ping(Bytes::from(pl.clone())),
        (10, true) => Message::Pong(Bytes::from(pl.clone())),
        (1, false) => Message::Continuation(Item::FirstText(Bytes::from(pl.clone()))),
        (2, false) => Message::Continuation(Item::FirstBinary(Bytes::from(pl.clone()))),
        (0, f) => {
            let _ = codec.encode(Message::Continuation(Item::FirstText(Bytes::from_static(b"x"))), &mut scratch);
            if f {
                Message::Continuation(Item::Last(Bytes::from(pl.clone())))
            } else {
                Message::Continuation(Item::Continue(Bytes::from(pl.clone())))
            }
        }
        _ => return,
    };
    // the output buffer may still hold earlier, unflushed frames: the new frame must come out the same after them
    let prefix: &[u8] = if (i + len) % 3 == 0 { b"" } else if (i + len) % 3 == 1 { b"\x81\x03abc" } else { b"\x82\x7e\x00\x80................................................................................................................................" };
    let mut dst = BytesMut::from(prefix);
    let r = codec.encode(msg, &mut dst);
    let ok = r.is_ok()
        && dst.len() >= prefix.len()
        && &dst[..prefix.len()] == prefix
        && match read_frame(&dst[prefix.len()..]) {
            Some((f, o, m, p, used)) => f == fin && o as u64 == op && m == peer_is_client && p == pl && used == dst.len() - prefix.len(),
            None => false,
        };
    out.emit(json!({"ev":"Enc","ok":ok,"op":op,"fin":fin,"len":len}));
}

// ------------------------------------------------------------------------------------------
// SHA-1 / base64 (independent of the sha1 / base64 crates used by actix)
// ------------------------------------------------------------------------------------------
fn sha1(data: &[u8]) -> [u8; 20] {
    let mut h: [u32; 5] = [0x67452301, 0xEFCDAB89, 0x98BADCFE, 0x10325476, 0xC3D2E1F0];
    let mut msg = data.to_vec();
    let ml = (data.len() as u64) * 8;
    msg.push(0x80);
    while msg.len() % 64 != 56 {
        msg.push(0);
    }
    msg.extend_from_slice(&ml.to_be_bytes());
    for chunk in msg.chunks(64) {
        let mut w = [0u32; 80];
        for i in 0..16 {
            w[i] = u32::from_be_bytes(chunk[i * 4..i * 4 + 4].try_into().unwrap());
        }
        for i in 16..80 {
            w[i] = (w[i - 3] ^ w[i - 8] ^ w[i - 14] ^ w[i - 16]).rotate_left(1);
        }
        let (mut a, mut b, mut c, mut d, mut e) = (h[0], h[1], h[2], h[3], h[4]);
        for (i, wi) in w.iter().enumerate() {
            let (f, k) = match i {
                0..=19 => ((b & c) | (!b & d), 0x5A827999u32),
                20..=39 => (b ^ c ^ d, 0x6ED9EBA1),
                40..=59 => ((b & c) | (b & d) | (c & d), 0x8F1BBCDC),
                _ => (b ^ c ^ d, 0xCA62C1D6),
            };
            let t = a.rotate_left(5).wrapping_add(f).wrapping_add(e).wrapping_add(k).wrapping_add(*wi);
            e = d;
            d = c;
            c = b.rotate_left(30);
            b = a;
            a = t;
        }
        h[0] = h[0].wrapping_add(a);
        h[1] = h[1].wrapping_add(b);
        h[2] = h[2].wrapping_add(c);
        h[3] = h[3].wrapping_add(d);
        h[4] = h[4].wrapping_add(e);
    }
    let mut out = [0u8; 20];
    for i in 0..5 {
        out[i * 4..i * 4 + 4].copy_from_slice(&h[i].to_be_bytes());
    }
    out
}
fn b64(data: &[u8]) -> String {
    const T: &[u8; 64] = b"ABCDEFGHIJKLMNOPQRSTUVWXYZabcdefghijklmnopqrstuvwxyz0123456789+/";
    let mut s = String::new();
    for c in data.chunks(3) {
        let n = (c[0] as u32) << 16 | (*c.get(1).unwrap_or(&0) as u32) << 8 | *c.get(2).unwrap_or(&0) as u32;
        s.push(T[(n >> 18) as usize & 63] as char);
        s.push(T[(n >> 12) as usize & 63] as char);
        s.push(if c.len() > 1 { T[(n >> 6) as usize & 63] as char } else { '=' });
        s.push(if c.len() > 2 { T[n as usize & 63] as char } else { '=' });
    }
    s
}

fn handshake_case(case: &Value, out: &mut TraceOut) {
    use actix_http::test::TestRequest;
    let mut tr = TestRequest::default();
    tr.method(http::Method::from_bytes(case["method"].as_str().unwrap().as_bytes()).unwrap());
    for h in case["hdrs"].as_array().unwrap() {
        tr.append_header((h[0].as_str().unwrap(), h[1].as_str().unwrap()));
    }
    let req = tr.finish();
    let res = ws::handshake(req.head());
    let (accepted, accept_ok) = match res {
        Ok(mut b) => {
            let resp = b.finish();
            let got = resp.headers().get("sec-websocket-accept").map(|v| v.as_bytes().to_vec()).unwrap_or_default();
            let key = case["key"].as_str().unwrap_or("");
            let mut d = key.as_bytes().to_vec();
            d.extend_from_slice(b"258EAFA5-E914-47DA-95CA-C5AB0DC85B11");
            let want = b64(&sha1(&d));
            (true, got == want.as_bytes() && resp.status().as_u16() == 101)
        }
        Err(_) => (false, false),
    };
    let f = &case["facts"];
    out.emit(json!({"ev":"Handshake","accepted":accepted,"accept_ok":accept_ok,"get":f["get"],"upgrade_ws":f["upgrade_ws"],
                    "conn_upgrade":f["conn_upgrade"],"version_ok":f["version_ok"],"has_key":f["has_key"]}));
}

pub fn replay(cases: &[Value], out: &mut TraceOut) {
    // RFC 6455 1.3 test vector for the independent SHA-1/base64
    let mut d = b"dGhlIHNhbXBsZSBub25jZQ==".to_vec();
    d.extend_from_slice(b"258EAFA5-E914-47DA-95CA-C5AB0DC85B11");
    assert_eq!(b64(&sha1(&d)), "s3pPLMBiTxaQ9kYGzzhZRbK+xOo=");
    for (ci, case) in cases.iter().enumerate() {
        if case.get("kind").and_then(|k| k.as_str()) == Some("handshake") {
            out.emit(json!({"ev":"Reset","run":ci+1,"role":"server","max":0,"frames":[],"total":0}));
            if let Err(p) = guarded(|| handshake_case(case, out)) {
                out.emit(json!({"ev":"Panic","msg":p}));
            }
            continue;
        }
        let role = case["role"].as_str().unwrap();
        let server = role == "server";
        let max = case["max"].as_u64().unwrap() as usize;
        let mut wire = vec![];
        let mut gt = vec![];
        let frames = case["frames"].as_array().unwrap();
        for (j, f) in frames.iter().enumerate() {
            let (fin, op, masked, len) = (f["fin"].as_bool().unwrap(), f["op"].as_u64().unwrap(), f["masked"].as_bool().unwrap(), f["len"].as_u64().unwrap() as usize);
            let start = wire.len();
            let wl = if case.get("announce_only").and_then(|a| a.as_bool()).unwrap_or(false) { 64 } else { len };
            write_frame(&mut wire, j + 1, fin, op, masked, len, wl);
            let hdr = wire.len() - start - wl.min(len);
            gt.push(json!({"fin":fin,"op":op,"masked":masked,"len":len,"hdr":hdr,"start":start,"end":start + hdr + len}));
        }
        out.emit(json!({"ev":"Reset","run":ci+1,"role":role,"max":max,"frames":gt,"total":wire.len()}));
        for (j, f) in frames.iter().enumerate() {
            let (fin, op, masked, len) = (f["fin"].as_bool().unwrap(), f["op"].as_u64().unwrap(), f["masked"].as_bool().unwrap(), f["len"].as_u64().unwrap() as usize);
            // legal frames of the sending role are also produced by actix's encoder and judged independently
            if masked == server && len <= 70000 && !(op == 8) && [0u64, 1, 2, 9, 10].contains(&op) && !(op >= 8 && (len > 125 || !fin)) {
                if let Err(p) = guarded(|| enc_check(j + 1, fin, op, len, server, out)) {
                    out.emit(json!({"ev":"Panic","msg":p}));
                }
            }
        }
        let mut codec = if server { Codec::new().max_size(max) } else { Codec::new().max_size(max).client_mode() };
        let mut buf = BytesMut::new();
        let mut segs: Vec<usize> = case["segs"].as_array().map(|a| a.iter().map(|x| x.as_u64().unwrap() as usize).collect()).unwrap_or_default();
        let fed: usize = segs.iter().sum();
        if fed < wire.len() {
            segs.push(wire.len() - fed);
        }
        let mut pos = 0;
        let mut idx = 0usize; // index of the next ground-truth frame, for the payload pattern
        let mut dead = false;
        for n in segs {
            if dead || pos >= wire.len() {
                break;
            }
            let n = n.min(wire.len() - pos);
            buf.extend_from_slice(&wire[pos..pos + n]);
            pos += n;
            out.emit(json!({"ev":"Feed","n":n}));
            loop {
                match guarded(|| codec.decode(&mut buf)) {
                    Err(p) => {
                        out.emit(json!({"ev":"Panic","msg":p}));
                        dead = true;
                        break;
                    }
                    Ok(Ok(Some(fr))) => {
                        let (fin, op, pl) = frame_obs(&fr);
                        idx += 1;
                        let want = frames.get(idx - 1).map(|f| payload(idx, f["op"].as_u64().unwrap(), f["len"].as_u64().unwrap() as usize)).unwrap_or_default();
                        out.emit(json!({"ev":"Frame","fin":fin,"op":op,"len":pl.len(),"ok":pl == want}));
                    }
                    Ok(Ok(None)) => {
                        out.emit(json!({"ev":"Round","buffered":buf.len(),"cap":buf.capacity()}));
                        break;
                    }
                    Ok(Err(e)) => {
                        out.emit(json!({"ev":"Err","kind":format!("{e:?}").split(|c: char| !c.is_alphanumeric()).next().unwrap_or("")}));
                        dead = true;
                        break;
                    }
                }
            }
        }
    }
}
