//! C17: `awc::Client` against a scripted in-memory server reached through a custom connector
//! (no real sockets): the script controls framing, segmentation, where the connection is closed,
//! bytes written after a message, and the application side drops bodies early or reads them.
use crate::util::TraceOut;
use actix_rt::net::{ActixStream, Ready};
use actix_service::fn_service;
use actix_tls::connect::{ConnectError, ConnectInfo, Connection};
use serde_json::{json, Value};
use std::{
    cell::RefCell,
    collections::VecDeque,
    io,
    pin::Pin,
    rc::Rc,
    task::{Context, Poll, Waker},
    time::Duration,
};
use tokio::io::{AsyncRead, AsyncWrite, ReadBuf};

fn pat(x: usize, k: usize) -> u8 {
    b'a' + ((x * 11 + k + (k >> 5)) % 26) as u8
}

struct Server {
    ex: Vec<Value>,
    next_x: usize,
    events: Vec<Value>,
    opened: usize,
    open_now: usize,
}
#[derive(Default)]
struct SockSt {
    id: usize,
    rq: VecDeque<Vec<u8>>,
    eof: bool,
    inbuf: Vec<u8>,
    rwaker: Option<Waker>,
    closed_by_client: bool,
}
struct Sock {
    st: Rc<RefCell<SockSt>>,
    srv: Rc<RefCell<Server>>,
}
impl std::fmt::Debug for Sock {
    fn fmt(&self, f: &mut std::fmt::Formatter<'_>) -> std::fmt::Result {
        write!(f, "Sock")
    }
}
impl Drop for Sock {
    fn drop(&mut self) {
        let mut s = self.srv.borrow_mut();
        s.open_now -= 1;
        let id = self.st.borrow().id;
        s.events.push(json!({"ev":"Closed","c":id}));
    }
}

fn response_bytes(x: usize, e: &Value) -> (Vec<Vec<u8>>, bool) {
    // returns the segments to deliver and whether the server closes after them
    let n = e["n"].as_u64().unwrap() as usize;
    let body: Vec<u8> = (0..n).map(|k| pat(x, k)).collect();
    let mut head = format!("HTTP/1.1 {} X\r\n", e["status"].as_u64().unwrap());
    let framing = e["framing"].as_str().unwrap();
    let mut wire_body = vec![];
    match framing {
        "cl" => {
            // optionally gzip-coded (complete, or with its 8-byte trailer missing): the length framing is complete either way
            if let Some(gz) = e.get("gz").and_then(|g| g.as_str()) {
                use std::io::Write as _;
                let mut enc = flate2::write::GzEncoder::new(vec![], flate2::Compression::default());
                enc.write_all(&body).unwrap();
                let mut coded = enc.finish().unwrap();
                if gz == "trunc" {
                    coded.truncate(coded.len() - 8);
                } else if gz == "half" {
                    coded.truncate(coded.len() / 2);
                }
                head.push_str(&format!("content-encoding: gzip\r\ncontent-length: {}\r\n", coded.len()));
                wire_body = coded;
            } else {
                head.push_str(&format!("content-length: {n}\r\n"));
                wire_body = body.clone();
            }
        }
        "chunked" => {
            head.push_str("transfer-encoding: chunked\r\n");
            // a Content-Length next to chunked coding: RFC 7230 3.3.3 - the transfer coding overrides it
            if let Some(k) = e.get("also_cl").and_then(|k| k.as_u64()) {
                head.push_str(&format!("content-length: {k}\r\n"));
            }
            let cs = e["chunk"].as_u64().unwrap_or(7) as usize;
            for c in body.chunks(cs.max(1)) {
                // optionally a chunk extension after the size (valid syntax the decoder has to skip); never combined with `cut`
                let ext = if e.get("ext").and_then(|x| x.as_bool()).unwrap_or(false) { ";name=val;flag" } else { "" };
                wire_body.extend_from_slice(format!("{:x}{ext}\r\n", c.len()).as_bytes());
                wire_body.extend_from_slice(c);
                wire_body.extend_from_slice(b"\r\n");
            }
            if e.get("ext").and_then(|x| x.as_bool()).unwrap_or(false) {
                wire_body.extend_from_slice(b"0;last\r\n\r\n");
            } else {
                wire_body.extend_from_slice(b"0\r\n\r\n");
            }
        }
        _ => {
            wire_body = body.clone();
        }
    }
    if !e["persistent"].as_bool().unwrap_or(true) {
        head.push_str("connection: close\r\n");
    }
    head.push_str("\r\n");
    let mut all = head.into_bytes();
    let head_len = all.len();
    all.extend_from_slice(&wire_body);
    let cut = e["cut"].as_i64().unwrap_or(-1);
    let mut close = framing == "eof" || !e["persistent"].as_bool().unwrap_or(true);
    if cut >= 0 {
        // cut is in body bytes; translate to wire bytes
        let wire_cut = if framing == "chunked" {
            let cs = e["chunk"].as_u64().unwrap_or(7) as usize;
            let full = (cut as usize) / cs.max(1);
            let mut w = 0;
            for k in 0..full {
                let l = cs.min(n - k * cs);
                w += format!("{:x}\r\n", l).len() + l + 2;
            }
            let rem = cut as usize - full * cs.max(1);
            if rem > 0 {
                let l = cs.min(n - full * cs);
                w += format!("{:x}\r\n", l).len() + rem;
            }
            w
        } else {
            cut as usize
        };
        all.truncate(head_len + wire_cut.min(wire_body.len()));
        close = true;
    }
    // the server closes inside the head: after `hcut` bytes, always before the blank line that ends it
    let hcut = e.get("hcut").and_then(|h| h.as_i64()).unwrap_or(-1);
    if hcut >= 0 {
        all.truncate((hcut as usize).min(head_len - 1));
        close = true;
    }
    let seg = e["seg"].as_u64().unwrap_or(1 << 20) as usize;
    let mut segs: Vec<Vec<u8>> = all.chunks(seg.max(1)).map(|c| c.to_vec()).collect();
    if e["extra"].as_bool().unwrap_or(false) {
        // bytes the server writes after the message, in a segment of their own: they are still unread when the message has been consumed
        segs.push(b"HTTP/1.1 299 LEFTOVER\r\ncontent-length: 2\r\n\r\nzz".to_vec());
    }
    (segs, close)
}

impl AsyncRead for Sock {
    fn poll_read(self: Pin<&mut Self>, cx: &mut Context<'_>, buf: &mut ReadBuf<'_>) -> Poll<io::Result<()>> {
        let mut s = self.st.borrow_mut();
        if let Some(mut c) = s.rq.pop_front() {
            let n = c.len().min(buf.remaining());
            buf.put_slice(&c[..n]);
            if n < c.len() {
                let rest = c.split_off(n);
                s.rq.push_front(rest);
            }
            Poll::Ready(Ok(()))
        } else if s.eof {
            Poll::Ready(Ok(()))
        } else {
            s.rwaker = Some(cx.waker().clone());
            Poll::Pending
        }
    }
}
impl AsyncWrite for Sock {
    fn poll_write(self: Pin<&mut Self>, _: &mut Context<'_>, b: &[u8]) -> Poll<io::Result<usize>> {
        let mut s = self.st.borrow_mut();
        s.inbuf.extend_from_slice(b);
        // a complete request head (GETs without body): answer per script
        while let Some(pos) = s.inbuf.windows(4).position(|w| w == b"\r\n\r\n") {
            s.inbuf.drain(..pos + 4);
            let mut srv = self.srv.borrow_mut();
            srv.next_x += 1;
            let x = srv.next_x;
            let id = s.id;
            srv.events.push(json!({"ev":"Req","x":x,"c":id}));
            if let Some(e) = srv.ex.get(x - 1).cloned() {
                let (segs, close) = response_bytes(x, &e);
                for sg in segs {
                    s.rq.push_back(sg);
                }
                if close {
                    s.eof = true;
                }
            } else {
                s.eof = true;
            }
            if let Some(w) = s.rwaker.take() {
                w.wake();
            }
        }
        Poll::Ready(Ok(b.len()))
    }
    fn poll_flush(self: Pin<&mut Self>, _: &mut Context<'_>) -> Poll<io::Result<()>> {
        Poll::Ready(Ok(()))
    }
    fn poll_shutdown(self: Pin<&mut Self>, _: &mut Context<'_>) -> Poll<io::Result<()>> {
        self.st.borrow_mut().closed_by_client = true;
        Poll::Ready(Ok(()))
    }
}
impl ActixStream for Sock {
    fn poll_read_ready(&self, cx: &mut Context<'_>) -> Poll<io::Result<Ready>> {
        let mut s = self.st.borrow_mut();
        if !s.rq.is_empty() || s.eof {
            Poll::Ready(Ok(Ready::READABLE))
        } else {
            s.rwaker = Some(cx.waker().clone());
            Poll::Pending
        }
    }
    fn poll_write_ready(&self, _: &mut Context<'_>) -> Poll<io::Result<Ready>> {
        Poll::Ready(Ok(Ready::WRITABLE))
    }
}

fn run_case(case: &Value) -> Vec<Value> {
    let rt = tokio::runtime::Builder::new_current_thread().enable_time().start_paused(true).build().unwrap();
    let local = tokio::task::LocalSet::new();
    let case = case.clone();
    local.block_on(&rt, async move {
        let ex: Vec<Value> = case["ex"].as_array().unwrap().clone();
        let srv = Rc::new(RefCell::new(Server { ex: ex.clone(), next_x: 0, events: vec![], opened: 0, open_now: 0 }));
        let s2 = srv.clone();
        let connector = awc::Connector::new()
            .limit(case["limit"].as_u64().unwrap_or(2) as usize)
            .connector(fn_service(move |info: ConnectInfo<http::Uri>| {
                let srv = s2.clone();
                async move {
                    let mut s = srv.borrow_mut();
                    s.opened += 1;
                    s.open_now += 1;
                    let id = s.opened;
                    let open = s.open_now;
                    s.events.push(json!({"ev":"Open","c":id,"open":open}));
                    drop(s);
                    let st = Rc::new(RefCell::new(SockSt { id, ..Default::default() }));
                    Ok::<_, ConnectError>(Connection::new(info.request().clone(), Sock { st, srv: srv.clone() }))
                }
            }));
        let client = awc::Client::builder().connector(connector).timeout(Duration::from_secs(20)).finish();
        let conc = case["concurrent"].as_u64().unwrap_or(1) as usize;
        let n = ex.len();
        let mut handles = vec![];
        let order = Rc::new(RefCell::new(0usize));
        // requests are issued sequentially unless `concurrent` > 1: then in waves of that size
        let mut x = 0;
        while x < n {
            let wave = conc.min(n - x);
            for k in 0..wave {
                let client = client.clone();
                let srv = srv.clone();
                let e = ex[x + k].clone();
                let _order = order.clone();
                // sequential runs: the k-th request issued is the k-th the server sees, so a failed send can be attributed
                let issued = if conc == 1 { x + k + 1 } else { 0 };
                handles.push(tokio::task::spawn_local(async move {
                    let res = match tokio::time::timeout(Duration::from_secs(120), client.get("http://origin.test/x").send()).await {
                        Ok(r) => r,
                        Err(_) => {
                            srv.borrow_mut().events.push(json!({"ev":"Fail","x":issued,"status":0,"err":"no response within 120 s of virtual time"}));
                            return;
                        }
                    };
                    match res {
                        Err(err) => {
                            srv.borrow_mut().events.push(json!({"ev":"Fail","x":issued,"status":0,"err":format!("{err:?}").chars().take(60).collect::<String>()}));
                        }
                        Ok(mut r) => {
                            let status = r.status().as_u16();
                            // which exchange is this? the status code carries it (200 + x)
                            let xx = (status as usize).saturating_sub(200);
                            srv.borrow_mut().events.push(json!({"ev":"Resp","x":xx.max(1).min(99),"status":status}));
                            if e["drop"].as_bool().unwrap_or(false) {
                                drop(r);
                                srv.borrow_mut().events.push(json!({"ev":"Dropped","x":xx}));
                                return;
                            }
                            let read = tokio::time::timeout(Duration::from_secs(120), r.body().limit(64 << 20)).await;
                            let read = match read {
                                Ok(x) => x,
                                Err(_) => {
                                    srv.borrow_mut().events.push(json!({"ev":"Body","x":xx.max(1).min(99),"outcome":"hang","n":0,"ok":false}));
                                    return;
                                }
                            };
                            match read {
                                Ok(b) => {
                                    let ok = b.iter().enumerate().all(|(k, &v)| v == pat(xx, k));
                                    srv.borrow_mut().events.push(json!({"ev":"Body","x":xx.max(1).min(99),"outcome":"ok","n":b.len(),"ok":ok}));
                                }
                                Err(_) => {
                                    srv.borrow_mut().events.push(json!({"ev":"Body","x":xx.max(1).min(99),"outcome":"err","n":0,"ok":false}));
                                }
                            }
                        }
                    }
                }));
            }
            for h in handles.drain(..) {
                let _ = h.await;
            }
            x += wave;
        }
        drop(client);
        let v = srv.borrow().events.clone();
        v
    })
}

pub fn replay(cases: &[Value], out: &mut TraceOut) {
    for (i, case) in cases.iter().enumerate() {
        let gt: Vec<Value> = case["ex"]
            .as_array()
            .unwrap()
            .iter()
            .map(|e| json!({"status":e["status"],"framing":e["framing"],"n":e["n"],"cut":e["cut"].as_i64().unwrap_or(-1),"persistent":e["persistent"].as_bool().unwrap_or(true),
                            "extra":e["extra"].as_bool().unwrap_or(false),"drop":e["drop"].as_bool().unwrap_or(false),"hcut":e.get("hcut").and_then(|h| h.as_i64()).unwrap_or(-1),
                            "bad":e.get("gz").and_then(|g| g.as_str()).map(|g| g != "ok").unwrap_or(false)}))
            .collect();
        out.emit(json!({"ev":"Reset","run":i+1,"ex":gt,"limit":case["limit"].as_u64().unwrap_or(2)}));
        match crate::util::guarded(|| run_case(case)) {
            Ok(evs) => {
                for e in evs {
                    out.emit(e);
                }
            }
            Err(p) => out.emit(json!({"ev":"Panic","msg":p})),
        }
    }
}
