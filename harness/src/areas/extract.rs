//! C12: buffering extractors (Bytes, String, Json, Form, to_bytes_limited on a payload) behind
//! `actix_web::test`, fed by a counting chunk stream, optionally content-encoded
//! (spec/bodylimit/LimitRef.tla).
use crate::util::TraceOut;
use actix_web::{
    dev, http::header, test, web, App, HttpResponse,
};
use bytes::Bytes;
use futures_core::Stream;
use serde_json::{json, Value};
use std::{
    cell::RefCell,
    io::Write,
    pin::Pin,
    rc::Rc,
    task::{Context, Poll},
};

#[derive(Default)]
struct Counter {
    pulled_wire: usize,
    chunks_pulled: usize,
}
struct CountStream {
    chunks: std::collections::VecDeque<Bytes>,
    c: Rc<RefCell<Counter>>,
    pend_between: bool, // one chunk per wake-up: Pending (self-woken) between any two chunks
    armed: bool,
}
impl Stream for CountStream {
    type Item = Result<Bytes, actix_web::error::PayloadError>;
    fn poll_next(mut self: Pin<&mut Self>, cx: &mut Context<'_>) -> Poll<Option<Self::Item>> {
        if self.pend_between && self.armed {
            self.armed = false;
            cx.waker().wake_by_ref();
            return Poll::Pending;
        }
        self.armed = true;
        match self.chunks.pop_front() {
            Some(b) => {
                let mut c = self.c.borrow_mut();
                c.pulled_wire += b.len();
                c.chunks_pulled += 1;
                Poll::Ready(Some(Ok(b)))
            }
            None => Poll::Ready(None),
        }
    }
}

// multipart forms whose file field streams to disk under a per-field limit (the limit is an attribute, hence one type per limit)
#[derive(actix_multipart::form::MultipartForm)]
struct Temp16 {
    #[multipart(limit = "16B")]
    f: actix_multipart::form::tempfile::TempFile,
}
#[derive(actix_multipart::form::MultipartForm)]
struct Temp4096 {
    #[multipart(limit = "4096B")]
    f: actix_multipart::form::tempfile::TempFile,
}

#[derive(serde::Deserialize)]
struct FormT {
    a: String,
}

/// decoded body of exactly `n` bytes that is valid for the extractor
fn body_for(ex: &str, n: usize) -> Vec<u8> {
    match ex {
        "json" => {
            if n < 2 {
                vec![b'1'; n.max(1)]
            } else {
                let mut v = vec![b'"'];
                v.extend(std::iter::repeat(b'j').take(n - 2));
                v.push(b'"');
                v
            }
        }
        "form" => {
            if n < 2 {
                vec![b'a'; n.max(1)]
            } else {
                let mut v = b"a=".to_vec();
                v.extend(std::iter::repeat(b'f').take(n - 2));
                v
            }
        }
        _ => (0..n).map(|k| b'a' + (k % 23) as u8).collect(),
    }
}

fn encode(coding: &str, data: &[u8]) -> Vec<u8> {
    match coding {
        "gzip" => {
            let mut e = flate2::write::GzEncoder::new(vec![], flate2::Compression::default());
            e.write_all(data).unwrap();
            e.finish().unwrap()
        }
        "deflate" => {
            let mut e = flate2::write::ZlibEncoder::new(vec![], flate2::Compression::default());
            e.write_all(data).unwrap();
            e.finish().unwrap()
        }
        "br" => {
            let mut out = vec![];
            {
                let mut w = brotli::CompressorWriter::new(&mut out, 4096, 5, 22);
                w.write_all(data).unwrap();
            }
            out
        }
        "zstd" => zstd::encode_all(data, 3).unwrap(),
        _ => data.to_vec(),
    }
}

pub fn replay(cases: &[Value], out: &mut TraceOut) {
    let sys = actix_rt::System::new();
    sys.block_on(async {
        for (i, case) in cases.iter().enumerate() {
            out.reset(i + 1);
            let ex = case["ex"].as_str().unwrap().to_owned();
            let limit = case["limit"].as_u64().unwrap() as usize;
            let coding = case["coding"].as_str().unwrap_or("identity").to_owned();
            let sizes: Vec<usize> = case["chunks"].as_array().unwrap().iter().map(|x| x.as_u64().unwrap() as usize).collect();
            let total: usize = sizes.iter().sum();
            let declared = case["declared"].as_i64().unwrap_or(-1);
            let decoded = if case.get("zeros").and_then(|z| z.as_bool()).unwrap_or(false) { vec![b'0'; total] } else { body_for(&ex, total) };
            // wire chunks: identity keeps the decoded composition; coded bodies are cut into wire chunks of `wire_chunk`
            let wire = encode(&coding, &decoded);
            let mut chunks = std::collections::VecDeque::new();
            let mut maxwire = 0usize;
            if coding == "identity" {
                if ex == "mpfield" {
                    chunks.push_back(Bytes::from_static(b"--PQ\r\ncontent-disposition: form-data; name=\"f\"\r\n\r\n"));
                }
                if ex == "mptemp" {
                    chunks.push_back(Bytes::from_static(b"--PQ\r\ncontent-disposition: form-data; name=\"f\"; filename=\"x.bin\"\r\n\r\n"));
                }
                let mut p = 0;
                for s in &sizes {
                    chunks.push_back(Bytes::copy_from_slice(&wire[p..p + s]));
                    p += s;
                    maxwire = maxwire.max(*s);
                }
                if ex == "mpfield" || ex == "mptemp" {
                    chunks.push_back(Bytes::from_static(b"\r\n--PQ--\r\n"));
                }
            } else {
                let wc = case["wire_chunk"].as_u64().unwrap_or(1 << 30) as usize;
                for c in wire.chunks(wc.max(1)) {
                    chunks.push_back(Bytes::copy_from_slice(c));
                    maxwire = maxwire.max(c.len());
                }
            }
            let maxchunk = if coding == "identity" { sizes.iter().copied().max().unwrap_or(0) } else { total };
            let counter = Rc::new(RefCell::new(Counter::default()));
            let app = test::init_service(
                App::new()
                    .app_data(web::PayloadConfig::new(limit))
                    .app_data(web::JsonConfig::default().limit(limit).content_type_required(false))
                    .app_data(web::FormConfig::default().limit(limit))
                    .route("/bytes", web::post().to(|b: web::Bytes| async move { HttpResponse::Ok().body(b.len().to_string()) }))
                    .route("/string", web::post().to(|b: String| async move { HttpResponse::Ok().body(b.len().to_string()) }))
                    .route("/json", web::post().to(|b: web::Json<Value>| async move { HttpResponse::Ok().body(b.to_string().len().to_string()) }))
                    .route("/form", web::post().to(|b: web::Form<FormT>| async move { HttpResponse::Ok().body((b.a.len() + 2).to_string()) }))
                    .route(
                        "/mptemp/16",
                        web::post().to(|f: Result<actix_multipart::form::MultipartForm<Temp16>, actix_web::Error>| async move {
                            // the form extractor answers every error with 400: tell the overflow error apart by what it is
                            match f {
                                Ok(f) => HttpResponse::Ok().body(f.f.size.to_string()),
                                Err(e) if format!("{e:?}").contains("Overflow") => HttpResponse::PayloadTooLarge().finish(),
                                Err(_) => HttpResponse::BadRequest().finish(),
                            }
                        }),
                    )
                    .route(
                        "/mptemp/4096",
                        web::post().to(|f: Result<actix_multipart::form::MultipartForm<Temp4096>, actix_web::Error>| async move {
                            // the form extractor answers every error with 400: tell the overflow error apart by what it is
                            match f {
                                Ok(f) => HttpResponse::Ok().body(f.f.size.to_string()),
                                Err(e) if format!("{e:?}").contains("Overflow") => HttpResponse::PayloadTooLarge().finish(),
                                Err(_) => HttpResponse::BadRequest().finish(),
                            }
                        }),
                    )
                    .route(
                        "/mpfield/{limit}",
                        web::post().to(|mut mp: actix_multipart::Multipart, l: web::Path<usize>| async move {
                            use futures_util::StreamExt as _;
                            match mp.next().await {
                                Some(Ok(mut field)) => match field.bytes(*l).await {
                                    Ok(Ok(b)) => HttpResponse::Ok().body(b.len().to_string()),
                                    Ok(Err(_)) => HttpResponse::BadRequest().finish(),
                                    Err(_limit_exceeded) => HttpResponse::PayloadTooLarge().finish(),
                                },
                                _ => HttpResponse::BadRequest().finish(),
                            }
                        }),
                    )
                    .route(
                        "/tbl/{limit}",
                        web::post().to(|p: web::Payload, l: web::Path<usize>| async move {
                            match p.to_bytes_limited(*l).await {
                                Ok(Ok(b)) => HttpResponse::Ok().body(b.len().to_string()),
                                Ok(Err(_)) => HttpResponse::BadRequest().finish(),
                                Err(_) => HttpResponse::PayloadTooLarge().finish(),
                            }
                        }),
                    ),
            )
            .await;
            let uri = if ex == "tbl" || ex == "mpfield" || ex == "mptemp" { format!("/{ex}/{limit}") } else { format!("/{ex}") };
            let mut rb = test::TestRequest::post().uri(&uri);
            if ex == "form" {
                rb = rb.insert_header((header::CONTENT_TYPE, "application/x-www-form-urlencoded"));
            } else if ex == "json" {
                rb = rb.insert_header((header::CONTENT_TYPE, "application/json"));
            } else if ex == "mpfield" || ex == "mptemp" {
                rb = rb.insert_header((header::CONTENT_TYPE, "multipart/form-data; boundary=PQ"));
            }
            if coding != "identity" {
                rb = rb.insert_header((header::CONTENT_ENCODING, coding.as_str()));
            }
            if declared >= 0 {
                rb = rb.insert_header((header::CONTENT_LENGTH, declared.to_string()));
            }
            let stream = CountStream { chunks, c: counter.clone(), pend_between: case.get("pend").and_then(|p| p.as_bool()).unwrap_or(false), armed: false };
            let mut sreq = rb.to_request();
            *sreq.payload() = dev::Payload::Stream { payload: Box::pin(stream) };
            crate::alloc::reset_peak();
            let base = crate::alloc::live();
            let res = actix_service::Service::call(&app, sreq).await;
            let held = crate::alloc::peak().saturating_sub(base);
            let status = match &res {
                Ok(r) => r.status().as_u16(),
                Err(e) => e.as_response_error().status_code().as_u16(),
            };
            let c = counter.borrow();
            // decoded bytes pulled: for identity the wire bytes; for coded bodies unknown without a hook -> report the wire side scaled
            // (Field::bytes keeps reading after the limit is exceeded, to advance the multipart stream: no pull clause for it)
            let pulled = if coding == "identity" && ex != "mpfield" && ex != "mptemp" { c.pulled_wire } else { 0 };
            out.emit(json!({"ev":"extract","ex":ex,"limit":limit,"total":total,"declared":declared,"coding":coding,"status":status,
                            "pulled":pulled,"pulled_wire":c.pulled_wire,"wire_total":wire.len(),"maxchunk":maxchunk,"maxwire":maxwire,
                            "held":held,"slack":65536 + 8 * limit.min(1 << 20) + match coding.as_str() { "identity" => 0, "gzip" | "deflate" => 1 << 20, _ => 24 << 20 }}));
        }
    });
}
