//! C13: Compress middleware (negotiation, lossless re-encoding, pass-through set, length headers,
//! termination) and request-body decompression, observed through `actix_web::test`
//! (spec/coding/CodingRef.tla).  Encoded bodies are decoded with flate2 / brotli / zstd directly.
use crate::util::TraceOut;
use actix_web::{
    body::{BodySize, MessageBody},
    http::{header, StatusCode},
    middleware::Compress,
    test, web, App, HttpRequest, HttpResponse,
};
use bytes::Bytes;
use serde_json::{json, Value};
use std::{
    io::{Read, Write},
    pin::Pin,
    task::{Context, Poll},
};

fn content(n: usize, kind: &str) -> Vec<u8> {
    match kind {
        "zeros" => vec![b'0'; n],
        "random" => {
            let mut x: u32 = 0x9E3779B9;
            (0..n)
                .map(|_| {
                    x ^= x << 13;
                    x ^= x >> 17;
                    x ^= x << 5;
                    (x >> 8) as u8
                })
                .collect()
        }
        _ => (0..n).map(|k| b"lorem ipsum dolor sit amet "[k % 27]).collect(),
    }
}

struct ChunkBody {
    data: Vec<u8>,
    cuts: Vec<usize>,
    idx: usize,
    off: usize,
    sized: bool,
    pend: bool,
    armed: bool,
}
impl MessageBody for ChunkBody {
    type Error = std::convert::Infallible;
    fn size(&self) -> BodySize {
        if self.sized { BodySize::Sized(self.data.len() as u64) } else { BodySize::Stream }
    }
    fn poll_next(mut self: Pin<&mut Self>, cx: &mut Context<'_>) -> Poll<Option<Result<Bytes, Self::Error>>> {
        if self.pend && self.armed {
            self.armed = false;
            cx.waker().wake_by_ref();
            return Poll::Pending;
        }
        self.armed = true;
        if self.idx >= self.cuts.len() {
            return Poll::Ready(None);
        }
        let n = self.cuts[self.idx];
        self.idx += 1;
        let b = Bytes::copy_from_slice(&self.data[self.off..self.off + n]);
        self.off += n;
        Poll::Ready(Some(Ok(b)))
    }
}

fn decode(label: &str, data: &[u8]) -> Option<Vec<u8>> {
    let mut out = vec![];
    match label {
        "identity" | "" => return Some(data.to_vec()),
        "gzip" => flate2::read::GzDecoder::new(data).read_to_end(&mut out).ok()?,
        "deflate" => flate2::read::ZlibDecoder::new(data).read_to_end(&mut out).ok()?,
        "br" => brotli::Decompressor::new(data, 4096).read_to_end(&mut out).ok()?,
        "zstd" => return zstd::decode_all(data).ok(),
        _ => return None,
    };
    Some(out)
}
fn encode(coding: &str, data: &[u8]) -> Vec<u8> {
    match coding {
        "gzip" => {
            let mut e = flate2::write::GzEncoder::new(vec![], flate2::Compression::default());
            e.write_all(data).unwrap();
            e.finish().unwrap()
        }
        "deflate" => {
            let mut e = flate2::write::ZlibEncoder::new(vec![], flate2::Compression::default());
            e.write_all(data).unwrap();
            e.finish().unwrap()
        }
        "br" => {
            let mut out = vec![];
            {
                let mut w = brotli::CompressorWriter::new(&mut out, 4096, 5, 22);
                w.write_all(data).unwrap();
            }
            out
        }
        "zstd" => zstd::encode_all(data, 3).unwrap(),
        _ => data.to_vec(),
    }
}

async fn handler(req: HttpRequest) -> HttpResponse {
    // the case travels in a request header so that one App serves every case
    let case: Value = serde_json::from_str(req.headers().get("x-case").unwrap().to_str().unwrap()).unwrap();
    let n = case["n"].as_u64().unwrap() as usize;
    let data = content(n, case["content"].as_str().unwrap_or("text"));
    let cuts: Vec<usize> = case["cuts"].as_array().unwrap().iter().map(|x| x.as_u64().unwrap() as usize).collect();
    let mut b = HttpResponse::build(StatusCode::from_u16(case["status"].as_u64().unwrap_or(200) as u16).unwrap());
    b.insert_header((header::CONTENT_TYPE, case["ctype"].as_str().unwrap_or("text/plain")));
    if let Some(l) = case.get("pre_encoded").and_then(|l| l.as_str()) {
        b.insert_header((header::CONTENT_ENCODING, l));
    }
    if case.get("user_cl").and_then(|c| c.as_bool()).unwrap_or(false) {
        b.insert_header((header::CONTENT_LENGTH, n.to_string()));
    }
    if case.get("no_chunking").and_then(|c| c.as_bool()).unwrap_or(false) {
        b.no_chunking(n as u64);
    }
    match case["kind"].as_str().unwrap_or("bytes") {
        "bytes" => b.body(data),
        "empty" => b.finish(),
        "sized" => b.body(ChunkBody { data, cuts, idx: 0, off: 0, sized: true, pend: case["pend"].as_bool().unwrap_or(false), armed: false }),
        _ => b.body(ChunkBody { data, cuts, idx: 0, off: 0, sized: false, pend: case["pend"].as_bool().unwrap_or(false), armed: false }),
    }
}

async fn echo(body: web::Bytes) -> HttpResponse {
    HttpResponse::Ok().body(body)
}

/// What a byte-level HTTP/1.1 client sees of one response on a keep-alive connection: the framing the head announces and
/// whether the body it delimits is complete (a body delimited by nothing, or by a length that never arrives, shows as a time-out).
struct WireResp {
    status: u16,
    label: String,
    framing: &'static str,
    cl: i64,
    body: Vec<u8>,
    complete: bool,
    timed_out: bool,
    conn_close: bool,
}

fn wire_exchange(addr: std::net::SocketAddr, accept: Option<&str>, case_hdr: &str) -> Option<WireResp> {
    use std::time::{Duration, Instant};
    let mut s = std::net::TcpStream::connect(addr).ok()?;
    s.set_read_timeout(Some(Duration::from_millis(200))).ok()?;
    let mut req = format!("GET /c HTTP/1.1\r\nhost: t\r\nx-case: {case_hdr}\r\n");
    if let Some(a) = accept {
        req.push_str(&format!("accept-encoding: {a}\r\n"));
    }
    req.push_str("\r\n");
    s.write_all(req.as_bytes()).ok()?;
    let mut buf: Vec<u8> = vec![];
    let mut closed = false;
    let mut last = Instant::now();
    let idle = Duration::from_millis(8000);
    let mut fill = |buf: &mut Vec<u8>, closed: &mut bool, last: &mut Instant| -> bool {
        // returns false when nothing more will come (closed, or idle for too long)
        let mut tmp = [0u8; 65536];
        loop {
            match s.read(&mut tmp) {
                Ok(0) => {
                    *closed = true;
                    return false;
                }
                Ok(n) => {
                    buf.extend_from_slice(&tmp[..n]);
                    *last = Instant::now();
                    return true;
                }
                Err(_) => {
                    if last.elapsed() > idle {
                        return false;
                    }
                }
            }
        }
    };
    let head_end = loop {
        if let Some(p) = buf.windows(4).position(|w| w == b"\r\n\r\n") {
            break p + 4;
        }
        if !fill(&mut buf, &mut closed, &mut last) {
            return None;
        }
    };
    let head = String::from_utf8_lossy(&buf[..head_end]).to_string();
    let mut lines = head.split("\r\n");
    let status: u16 = lines.next()?.split(' ').nth(1)?.parse().ok()?;
    let (mut cl, mut chunked, mut label) = (-1i64, false, "identity".to_string());
    let mut conn_close = false;
    for l in lines {
        if let Some((n, v)) = l.split_once(':') {
            let (n, v) = (n.trim().to_ascii_lowercase(), v.trim());
            match n.as_str() {
                "content-length" => cl = v.parse().unwrap_or(-2),
                "transfer-encoding" => chunked = v.to_ascii_lowercase().contains("chunked"),
                "content-encoding" => label = v.to_string(),
                "connection" => conn_close = v.eq_ignore_ascii_case("close"),
                _ => {}
            }
        }
    }
    let mut rest = buf[head_end..].to_vec();
    let mut body = vec![];
    let (framing, complete, timed_out);
    if chunked {
        framing = "chunked";
        let mut ok = false;
        let mut to = false;
        'outer: loop {
            // chunk-size line
            let eol = loop {
                if let Some(p) = rest.windows(2).position(|w| w == b"\r\n") {
                    break p;
                }
                if !fill(&mut rest, &mut closed, &mut last) {
                    to = !closed;
                    break 'outer;
                }
            };
            let size = usize::from_str_radix(String::from_utf8_lossy(&rest[..eol]).split(';').next().unwrap_or("").trim(), 16).unwrap_or(usize::MAX);
            if size == usize::MAX {
                break;
            }
            rest.drain(..eol + 2);
            while rest.len() < size + 2 {
                if !fill(&mut rest, &mut closed, &mut last) {
                    to = !closed;
                    break 'outer;
                }
            }
            if size == 0 {
                ok = true;
                break;
            }
            body.extend_from_slice(&rest[..size]);
            rest.drain(..size + 2);
        }
        complete = ok;
        timed_out = to;
    } else if cl >= 0 {
        framing = "cl";
        while (rest.len() as i64) < cl {
            if !fill(&mut rest, &mut closed, &mut last) {
                break;
            }
        }
        complete = rest.len() as i64 == cl;
        timed_out = (rest.len() as i64) < cl && !closed;
        body = rest;
    } else if status == 204 || status == 304 || (100..200).contains(&status) {
        framing = "none";
        complete = true;
        timed_out = false;
    } else {
        framing = "close";
        while fill(&mut rest, &mut closed, &mut last) {}
        complete = closed;
        timed_out = !closed;
        body = rest;
    }
    Some(WireResp { status, label, framing, cl, body, complete, timed_out, conn_close })
}

fn start_wire_server() -> (std::net::SocketAddr, actix_web::dev::ServerHandle) {
    let (tx, rx) = std::sync::mpsc::channel();
    std::thread::spawn(move || {
        let sys = actix_rt::System::new();
        sys.block_on(async move {
            let srv = actix_web::HttpServer::new(|| App::new().service(web::resource("/c").wrap(Compress::default()).to(handler)))
                .workers(1)
                .disable_signals()
                .bind("127.0.0.1:0")
                .expect("bind loopback");
            let addr = srv.addrs()[0];
            let srv = srv.run();
            tx.send((addr, srv.handle())).unwrap();
            let _ = srv.await;
        })
    });
    rx.recv().expect("wire server")
}

pub fn replay(cases: &[Value], out: &mut TraceOut) {
    let wire_srv = if cases.iter().any(|c| c["kind0"] == "wire") { Some(start_wire_server()) } else { None };
    let sys = actix_rt::System::new();
    sys.block_on(async {
        let app = test::init_service(
            App::new()
                .app_data(web::PayloadConfig::new(64 << 20))
                .service(web::resource("/c").wrap(Compress::default()).to(handler))
                .service(web::resource("/echo").to(echo)),
        )
        .await;
        for (i, case) in cases.iter().enumerate() {
            out.reset(i + 1);
            match case["kind0"].as_str().unwrap() {
                "neg" | "body" => {
                    let mut rb = test::TestRequest::get().uri("/c").insert_header(("x-case", case["resp"].to_string()));
                    let ae: Option<String> = case.get("accept").and_then(|a| a.as_str()).map(|s| s.to_owned());
                    if let Some(a) = &ae {
                        rb = rb.insert_header((header::ACCEPT_ENCODING, a.as_str()));
                    }
                    let res = test::call_service(&app, rb.to_request()).await;
                    let status = res.status().as_u16();
                    let label = res.headers().get(header::CONTENT_ENCODING).and_then(|v| v.to_str().ok()).unwrap_or("identity").to_owned();
                    let clen: i64 = res.headers().get(header::CONTENT_LENGTH).and_then(|v| v.to_str().ok()).and_then(|v| v.parse().ok()).unwrap_or(-1);
                    // read the body with a poll budget: the stream must terminate
                    let mut body = res.into_body();
                    let mut wire = vec![];
                    let mut terminated = false;
                    let mut polls = 0;
                    loop {
                        polls += 1;
                        if polls > 200_000 {
                            break;
                        }
                        let item = std::future::poll_fn(|cx| Pin::new(&mut body).poll_next(cx)).await;
                        match item {
                            Some(Ok(b)) => wire.extend_from_slice(&b),
                            Some(Err(_)) => break,
                            None => {
                                terminated = true;
                                break;
                            }
                        }
                    }
                    if case["kind0"] == "neg" {
                        out.emit(json!({"ev":"neg","items":case["items"],"status":status,"chosen":label,"incompressible":case["resp"]["ctype"] == "image/png"}));
                    } else {
                        let r = &case["resp"];
                        let n = r["n"].as_u64().unwrap() as usize;
                        let orig = if r["kind"] == "empty" { vec![] } else { content(n, r["content"].as_str().unwrap_or("text")) };
                        let pre = r.get("pre_encoded").and_then(|l| l.as_str());
                        let rstatus = r["status"].as_u64().unwrap_or(200);
                        let must_pass = pre.is_some() || [101u64, 204, 206].contains(&rstatus) || orig.is_empty();
                        let why = if pre.is_some() { "already-encoded" } else if orig.is_empty() { "empty" } else { "status" };
                        let decoded_ok = if pre.is_some() { wire == orig } else { decode(&label, &wire).map(|d| d == orig).unwrap_or(false) };
                        out.emit(json!({"ev":"body","label":label,"orig_label":pre.unwrap_or("identity"),"decoded_ok":decoded_ok,"unchanged":wire == orig,
                                        "must_pass":must_pass,"why":why,"clen":clen,"wire_len":wire.len(),"terminated":terminated,"status":status,"n":n}));
                    }
                }
                "reqbody" => {
                    let coding = case["coding"].as_str().unwrap();
                    let n = case["n"].as_u64().unwrap() as usize;
                    let orig = content(n, case["content"].as_str().unwrap_or("text"));
                    let wire = encode(coding, &orig);
                    let req = test::TestRequest::post().uri("/echo").insert_header((header::CONTENT_ENCODING, coding)).set_payload(wire).to_request();
                    let res = test::call_service(&app, req).await;
                    let ok = res.status().is_success();
                    let body = test::read_body(res).await;
                    out.emit(json!({"ev":"reqbody","coding":coding,"n":n,"decoded_ok": ok && body.as_ref() == orig.as_slice()}));
                }
                "wire" => {
                    // the same handler behind a real HTTP/1 server on loopback, read by a byte-level client
                    let r = &case["resp"];
                    let n = r["n"].as_u64().unwrap() as usize;
                    let orig = if r["kind"] == "empty" { vec![] } else { content(n, r["content"].as_str().unwrap_or("text")) };
                    let addr = wire_srv.as_ref().unwrap().0;
                    match wire_exchange(addr, case.get("accept").and_then(|a| a.as_str()), &r.to_string()) {
                        Some(w) => {
                            // a status that cannot carry a body has nothing to compare
                            let decoded_ok = w.framing == "none" || decode(&w.label, &w.body).map(|d| d == orig).unwrap_or(false);
                            out.emit(json!({"ev":"wire","status":w.status,"label":w.label,"framing":w.framing,"cl":w.cl,"got":w.body.len(),
                                            "complete":w.complete,"timed_out":w.timed_out,"conn_close":w.conn_close,"decoded_ok":decoded_ok,"n":n}));
                        }
                        None => out.emit(json!({"ev":"wire","status":0,"label":"","framing":"none","cl":-1,"got":0,"complete":false,"timed_out":true,"conn_close":false,"decoded_ok":false,"n":n})),
                    }
                }
                k => panic!("kind {k}"),
            }
        }
    });
    if let Some((_, h)) = wire_srv {
        let _ = sys.block_on(h.stop(false));
    }
}
