//! C13: Compress middleware (negotiation, lossless re-encoding, pass-through set, length headers,
//! termination) and request-body decompression, observed through `actix_web::test`
//! (spec/coding/CodingRef.tla).  Encoded bodies are decoded with flate2 / brotli / zstd directly.
use crate::util::TraceOut;
use actix_web::{
    body::{BodySize, MessageBody},
    http::{header, StatusCode},
    middleware::Compress,
    test, web, App, HttpRequest, HttpResponse,
};
use bytes::Bytes;
use serde_json::{json, Value};
use std::{
    io::{Read, Write},
    pin::Pin,
    task::{Context, Poll},
};

fn content(n: usize, kind: &str) -> Vec<u8> {
    match kind {
        "zeros" => vec![b'0'; n],
        "random" => {
            let mut x: u32 = 0x9E3779B9;
            (0..n)
                .map(|_| {
                    x ^= x << 13;
                    x ^= x >> 17;
                    x ^= x << 5;
                    (x >> 8) as u8
                })
                .collect()
        }
        _ => (0..n).map(|k| b"lorem ipsum dolor sit amet "[k % 27]).collect(),
    }
}

struct ChunkBody {
    data: Vec<u8>,
    cuts: Vec<usize>,
    idx: usize,
    off: usize,
    sized: bool,
    pend: bool,
    armed: bool,
}
impl MessageBody for ChunkBody {
    type Error = std::convert::Infallible;
    fn size(&self) -> BodySize {
        if self.sized { BodySize::Sized(self.data.len() as u64) } else { BodySize::Stream }
    }
    fn poll_next(mut self: Pin<&mut Self>, cx: &mut Context<'_>) -> Poll<Option<Result<Bytes, Self::Error>>> {
        if self.pend && self.armed {
            self.armed = false;
            cx.waker().wake_by_ref();
            return Poll::Pending;
        }
        self.armed = true;
        if self.idx >= self.cuts.len() {
            return Poll::Ready(None);
        }
        let n = self.cuts[self.idx];
        self.idx += 1;
        let b = Bytes::copy_from_slice(&self.data[self.off..self.off + n]);
        self.off += n;
        Poll::Ready(Some(Ok(b)))
    }
}

fn decode(label: &str, data: &[u8]) -> Option<Vec<u8>> {
    let mut out = vec![];
    match label {
        "identity" | "" => return Some(data.to_vec()),
        "gzip" => flate2::read::GzDecoder::new(data).read_to_end(&mut out).ok()?,
        "deflate" => flate2::read::ZlibDecoder::new(data).read_to_end(&mut out).ok()?,
        "br" => brotli::Decompressor::new(data, 4096).read_to_end(&mut out).ok()?,
        "zstd" => return zstd::decode_all(data).ok(),
        _ => return None,
    };
    Some(out)
}
fn encode(coding: &str, data: &[u8]) -> Vec<u8> {
    match coding {
        "gzip" => {
            let mut e = flate2::write::GzEncoder::new(vec![], flate2::Compression::default());
            e.write_all(data).unwrap();
            e.finish().unwrap()
        }
        "deflate" => {
            let mut e = flate2::write::ZlibEncoder::new(vec![], flate2::Compression::default());
            e.write_all(data).unwrap();
            e.finish().unwrap()
        }
        "br" => {
            let mut out = vec![];
            {
                let mut w = brotli::CompressorWriter::new(&mut out, 4096, 5, 22);
                w.write_all(data).unwrap();
            }
            out
        }
        "zstd" => zstd::encode_all(data, 3).unwrap(),
        _ => data.to_vec(),
    }
}

async fn handler(req: HttpRequest) -> HttpResponse {
    // the case travels in a request header so that one App serves every case
    let case: Value = serde_json::from_str(req.headers().get("x-case").unwrap().to_str().unwrap()).unwrap();
    let n = case["n"].as_u64().unwrap() as usize;
    let data = content(n, case["content"].as_str().unwrap_or("text"));
    let cuts: Vec<usize> = case["cuts"].as_array().unwrap().iter().map(|x| x.as_u64().unwrap() as usize).collect();
    let mut b = HttpResponse::build(StatusCode::from_u16(case["status"].as_u64().unwrap_or(200) as u16).unwrap());
    b.insert_header((header::CONTENT_TYPE, case["ctype"].as_str().unwrap_or("text/plain")));
    if let Some(l) = case.get("pre_encoded").and_then(|l| l.as_str()) {
        b.insert_header((header::CONTENT_ENCODING, l));
    }
    if case.get("user_cl").and_then(|c| c.as_bool()).unwrap_or(false) {
        b.insert_header((header::CONTENT_LENGTH, n.to_string()));
    }
    match case["kind"].as_str().unwrap_or("bytes") {
        "bytes" => b.body(data),
        "empty" => b.finish(),
        "sized" => b.body(ChunkBody { data, cuts, idx: 0, off: 0, sized: true, pend: case["pend"].as_bool().unwrap_or(false), armed: false }),
        _ => b.body(ChunkBody { data, cuts, idx: 0, off: 0, sized: false, pend: case["pend"].as_bool().unwrap_or(false), armed: false }),
    }
}

async fn echo(body: web::Bytes) -> HttpResponse {
    HttpResponse::Ok().body(body)
}

pub fn replay(cases: &[Value], out: &mut TraceOut) {
    let sys = actix_rt::System::new();
    sys.block_on(async {
        let app = test::init_service(
            App::new()
                .app_data(web::PayloadConfig::new(64 << 20))
                .service(web::resource("/c").wrap(Compress::default()).to(handler))
                .service(web::resource("/echo").to(echo)),
        )
        .await;
        for (i, case) in cases.iter().enumerate() {
            out.reset(i + 1);
            match case["kind0"].as_str().unwrap() {
                "neg" | "body" => {
                    let mut rb = test::TestRequest::get().uri("/c").insert_header(("x-case", case["resp"].to_string()));
                    let ae: Option<String> = case.get("accept").and_then(|a| a.as_str()).map(|s| s.to_owned());
                    if let Some(a) = &ae {
                        rb = rb.insert_header((header::ACCEPT_ENCODING, a.as_str()));
                    }
                    let res = test::call_service(&app, rb.to_request()).await;
                    let status = res.status().as_u16();
                    let label = res.headers().get(header::CONTENT_ENCODING).and_then(|v| v.to_str().ok()).unwrap_or("identity").to_owned();
                    let clen: i64 = res.headers().get(header::CONTENT_LENGTH).and_then(|v| v.to_str().ok()).and_then(|v| v.parse().ok()).unwrap_or(-1);
                    // read the body with a poll budget: the stream must terminate
                    let mut body = res.into_body();
                    let mut wire = vec![];
                    let mut terminated = false;
                    let mut polls = 0;
                    loop {
                        polls += 1;
                        if polls > 200_000 {
                            break;
                        }
                        let item = std::future::poll_fn(|cx| Pin::new(&mut body).poll_next(cx)).await;
                        match item {
                            Some(Ok(b)) => wire.extend_from_slice(&b),
                            Some(Err(_)) => break,
                            None => {
                                terminated = true;
                                break;
                            }
                        }
                    }
                    if case["kind0"] == "neg" {
                        out.emit(json!({"ev":"neg","items":case["items"],"status":status,"chosen":label,"incompressible":case["resp"]["ctype"] == "image/png"}));
                    } else {
                        let r = &case["resp"];
                        let n = r["n"].as_u64().unwrap() as usize;
                        let orig = if r["kind"] == "empty" { vec![] } else { content(n, r["content"].as_str().unwrap_or("text")) };
                        let pre = r.get("pre_encoded").and_then(|l| l.as_str());
                        let rstatus = r["status"].as_u64().unwrap_or(200);
                        let must_pass = pre.is_some() || [101u64, 204, 206].contains(&rstatus) || orig.is_empty();
                        let why = if pre.is_some() { "already-encoded" } else if orig.is_empty() { "empty" } else { "status" };
                        let decoded_ok = if pre.is_some() { wire == orig } else { decode(&label, &wire).map(|d| d == orig).unwrap_or(false) };
                        out.emit(json!({"ev":"body","label":label,"orig_label":pre.unwrap_or("identity"),"decoded_ok":decoded_ok,"unchanged":wire == orig,
                                        "must_pass":must_pass,"why":why,"clen":clen,"wire_len":wire.len(),"terminated":terminated,"status":status,"n":n}));
                    }
                }
                "reqbody" => {
                    let coding = case["coding"].as_str().unwrap();
                    let n = case["n"].as_u64().unwrap() as usize;
                    let orig = content(n, case["content"].as_str().unwrap_or("text"));
                    let wire = encode(coding, &orig);
                    let req = test::TestRequest::post().uri("/echo").insert_header((header::CONTENT_ENCODING, coding)).set_payload(wire).to_request();
                    let res = test::call_service(&app, req).await;
                    let ok = res.status().is_success();
                    let body = test::read_body(res).await;
                    out.emit(json!({"ev":"reqbody","coding":coding,"n":n,"decoded_ok": ok && body.as_ref() == orig.as_slice()}));
                }
                k => panic!("kind {k}"),
            }
        }
    });
}
