//! C09: builds an actix-web `App` from a route-table description (nested scopes, resources,
//! routes, guards, defaults, app data) and reports what each request reached
//! (spec/routing/RoutingRef.tla).
use crate::util::TraceOut;
use actix_web::{guard, http::Method, test, web, App, HttpMessage as _, HttpRequest, HttpResponse, Resource, Scope};
use serde_json::{json, Value};

#[derive(Clone, Copy)]
struct Tag(u64);
/// what `ServiceRequest::app_data::<Tag>()` gave the middleware of the innermost scope the request went through
#[derive(Clone, Copy)]
struct MwSeen(u64);

fn chars(v: &Value) -> String {
    v.as_array().map(|a| a.iter().map(|c| c.as_str().unwrap()).collect()).unwrap_or_default()
}
fn pat_string(p: &Value) -> String {
    let mut s = String::new();
    for el in p.as_array().unwrap() {
        match el["k"].as_str().unwrap() {
            "lit" => s.push_str(&chars(&el["s"])),
            "dyn" => s.push_str(&format!("{{{}}}", el["name"].as_str().unwrap())),
            "tail" => s.push_str(&format!("{{{}}}*", el["name"].as_str().unwrap())),
            k => panic!("element {k}"),
        }
    }
    s
}

fn answer(id: u64, req: &HttpRequest) -> HttpResponse {
    let caps: Vec<Value> = req.match_info().iter().map(|(n, v)| json!([n, v.chars().map(|c| c.to_string()).collect::<Vec<_>>()])).collect();
    let data = req.app_data::<Tag>().map(|t| t.0).unwrap_or(0);
    let mw = req.extensions().get::<MwSeen>().map(|m| m.0).unwrap_or(0);
    HttpResponse::Ok().body(json!({"id": id, "caps": caps, "data": data, "mw": mw}).to_string())
}

fn method_guard(m: &str) -> Option<std::rc::Rc<dyn guard::Guard>> {
    match m {
        "GET" => Some(std::rc::Rc::new(guard::Get())),
        "POST" => Some(std::rc::Rc::new(guard::Post())),
        _ => None,
    }
}

fn build_resource(n: &Value) -> Resource {
    let pats: Vec<String> = n["pats"].as_array().unwrap().iter().map(pat_string).collect();
    let mut r = if pats.len() == 1 { web::resource(pats[0].clone()) } else { web::resource(pats) };
    if let Some(g) = method_guard(n["guard"].as_str().unwrap()) {
        r = r.guard(g);
    }
    if n["hg"].as_bool().unwrap_or(false) {
        r = r.guard(guard::Header("x-g", "1"));
    }
    if n["data"].as_u64().unwrap() != 0 {
        r = r.app_data(Tag(n["data"].as_u64().unwrap()));
    }
    for rt in n["routes"].as_array().unwrap() {
        let id = rt["id"].as_u64().unwrap();
        let mut route = web::route();
        if let Some(g) = method_guard(rt["m"].as_str().unwrap()) {
            route = route.guard(g);
        }
        r = r.route(route.to(move |req: HttpRequest| async move { answer(id, &req) }));
    }
    let d = n["dflt"].as_u64().unwrap();
    if d != 0 {
        r = r.default_service(web::to(move |req: HttpRequest| async move { answer(d, &req) }));
    }
    r
}

fn build_scope(
    n: &Value,
) -> Scope<
    impl actix_web::dev::ServiceFactory<
        actix_web::dev::ServiceRequest,
        Config = (),
        Response = actix_web::dev::ServiceResponse,
        Error = actix_web::Error,
        InitError = (),
    >,
> {
    let mut s = web::scope(&pat_string(&n["prefix"]));
    if let Some(g) = method_guard(n["guard"].as_str().unwrap()) {
        s = s.guard(g);
    }
    if n["hg"].as_bool().unwrap_or(false) {
        s = s.guard(guard::Header("x-g", "1"));
    }
    if n["data"].as_u64().unwrap() != 0 {
        s = s.app_data(Tag(n["data"].as_u64().unwrap()));
    }
    for c in n["children"].as_array().unwrap() {
        s = if c["t"] == "scope" { s.service(build_scope(c)) } else { s.service(build_resource(c)) };
    }
    let d = n["dflt"].as_u64().unwrap();
    if d != 0 {
        s = s.default_service(web::to(move |req: HttpRequest| async move { answer(d, &req) }));
    }
    // the scope's own middleware looks the tag up through the ServiceRequest (the last scope on the way in wins)
    s.wrap_fn(|req, srv| {
        use actix_web::dev::Service as _;
        use actix_web::HttpMessage as _;
        let seen = req.app_data::<Tag>().map(|t| t.0).unwrap_or(0);
        req.extensions_mut().insert(MwSeen(seen));
        srv.call(req)
    })
}

pub fn replay(cases: &[Value], out: &mut TraceOut) {
    let sys = actix_rt::System::new();
    sys.block_on(async {
        for (i, case) in cases.iter().enumerate() {
            let table = &case["table"];
            out.emit(json!({"ev":"Reset","run":i+1,"table":table}));
            let mut app = App::new().app_data(Tag(table["data"].as_u64().unwrap()));
            for c in table["children"].as_array().unwrap() {
                app = if c["t"] == "scope" {
                    app.service(build_scope(c))
                } else if c["via"] == "cfg" {
                    // the same resource written as `cfg.route(path, route)`: its guards are the route's guards
                    let c = c.clone();
                    app.configure(move |cfg: &mut web::ServiceConfig| {
                        let id = c["routes"][0]["id"].as_u64().unwrap();
                        let mut route = web::route();
                        if let Some(g) = method_guard(c["guard"].as_str().unwrap()) {
                            route = route.guard(g);
                        }
                        if c["hg"].as_bool().unwrap_or(false) {
                            route = route.guard(guard::Header("x-g", "1"));
                        }
                        cfg.route(&pat_string(&c["pats"][0]), route.to(move |req: HttpRequest| async move { answer(id, &req) }));
                    })
                } else {
                    app.service(build_resource(c))
                };
            }
            let d = table["dflt"].as_u64().unwrap();
            if d != 0 {
                app = app.default_service(web::to(move |req: HttpRequest| async move { answer(d, &req) }));
            }
            let svc = test::init_service(app).await;
            for p in case["probes"].as_array().unwrap() {
                let path = chars(&p["path"]);
                let raw = if p["enc"].as_bool().unwrap_or(false) { path.replace('a', "%61") } else { path.clone() };
                let method = p["method"].as_str().unwrap();
                let hx = p["hx"].as_bool().unwrap_or(false);
                let mut tr = test::TestRequest::with_uri(&raw).method(Method::from_bytes(method.as_bytes()).unwrap());
                if hx {
                    tr = tr.insert_header(("x-g", "1"));
                }
                let req = tr.to_request();
                let res = test::call_service(&svc, req).await;
                let status = res.status().as_u16();
                let body = test::read_body(res).await;
                let v: Value = serde_json::from_slice(&body).unwrap_or(json!({"id":0,"caps":[],"data":0,"mw":0}));
                out.emit(json!({"ev":"route","method":method,"path":p["path"],"enc":p["enc"],"hx":hx,"status":status,"id":v["id"],"caps":v["caps"],"data":v["data"],"mw":v["mw"]}));
            }
        }
    });
}
