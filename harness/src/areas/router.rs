//! C10: public actix_router API (ResourceDef, Path, Quoter) evaluated on cases enumerated from
//! spec/router/PatMC.tla; the observed relation is validated against spec/router/PatRef.tla.
use crate::util::{guarded, TraceOut};
use actix_router::{Path, Quoter, ResourceDef};
use serde_json::{json, Value};

fn chars(v: &Value) -> String {
    v.as_array().map(|a| a.iter().map(|c| c.as_str().unwrap()).collect()).unwrap_or_default()
}
fn pat_string(p: &Value) -> String {
    let mut s = String::new();
    for el in p.as_array().unwrap() {
        match el["k"].as_str().unwrap() {
            "lit" => s.push_str(&chars(&el["s"])),
            "dyn" => s.push_str(&format!("{{{}}}", el["name"].as_str().unwrap())),
            "dig" => s.push_str(&format!("{{{}:[0-9]+}}", el["name"].as_str().unwrap())),
            "ab" => s.push_str(&format!("{{{}:[ab]+}}", el["name"].as_str().unwrap())),
            // a custom regex that brings a capturing group of its own
            "grp" => s.push_str(&format!("{{{}:(a|1)+}}", el["name"].as_str().unwrap())),
            "tail" => s.push_str(&format!("{{{}}}*", el["name"].as_str().unwrap())),
            k => panic!("element {k}"),
        }
    }
    s
}
fn seq(s: &str) -> Vec<Value> {
    s.chars().map(|c| json!(c.to_string())).collect()
}

fn match_case(case: &Value) -> Value {
    let pats: Vec<String> = case["pats"].as_array().unwrap().iter().map(pat_string).collect();
    let prefix = case["prefix"].as_bool().unwrap();
    let path = chars(&case["path"]);
    let rdef = if pats.len() == 1 {
        if prefix { ResourceDef::prefix(pats[0].as_str()) } else { ResourceDef::new(pats[0].as_str()) }
    } else if prefix {
        ResourceDef::prefix(pats.clone())
    } else {
        ResourceDef::new(pats.clone())
    };
    let is_match = rdef.is_match(&path);
    let find = rdef.find_match(&path).map(|n| n as i64).unwrap_or(-1);
    let mut p = Path::new(path.as_str());
    let cap_ok = rdef.capture_match_info(&mut p);
    let mut caps = vec![];
    let mut cap_len = -1i64;
    let mut rt_ok = true;
    if cap_ok {
        cap_len = (path.len() - p.unprocessed().len()) as i64;
        for (n, v) in p.iter() {
            caps.push(json!([n, seq(v)]));
        }
        if pats.len() == 1 {
            // build a path from the captured values and match it again
            let mut built = String::new();
            let vals: Vec<String> = p.iter().map(|(_, v)| v.to_owned()).collect();
            let ok = rdef.resource_path_from_iter(&mut built, vals.iter());
            let mut p2 = Path::new(built.as_str());
            let again = ok && rdef.capture_match_info(&mut p2);
            let vals2: Vec<String> = p2.iter().map(|(_, v)| v.to_owned()).collect();
            // a prefix match leaves the rest of the path out of the rebuilt string; captures must come back unchanged
            rt_ok = ok && again && vals2 == vals;
        }
    }
    json!({"ev":"match","pats":case["pats"],"prefix":prefix,"path":case["path"],"is_match":is_match,"find":find,"cap_ok":cap_ok,
           "caps":caps,"cap_len":cap_len,"rt_ok":rt_ok})
}

/// long paths (16-bit capture offsets): expectations are computed by the generator, which knows the segments it joined
fn long_case(case: &Value) -> Value {
    let pat = case["pattern"].as_str().unwrap();
    let path = case["path_str"].as_str().unwrap();
    let prefix = case["prefix"].as_bool().unwrap();
    let rdef = if prefix { ResourceDef::prefix(pat) } else { ResourceDef::new(pat) };
    let want_len = case["want_len"].as_i64().unwrap();
    let want: Vec<String> = case["want_caps"].as_array().unwrap().iter().map(|x| x.as_str().unwrap().to_owned()).collect();
    let is_match = rdef.is_match(path);
    let find = rdef.find_match(path).map(|n| n as i64).unwrap_or(-1);
    let mut p = Path::new(path);
    let cap_ok = rdef.capture_match_info(&mut p);
    let got: Vec<String> = if cap_ok { p.iter().map(|(_, v)| v.to_owned()).collect() } else { vec![] };
    json!({"ev":"longmatch","n":path.len(),"is_match":is_match,"find_ok":find == want_len,"cap_ok":cap_ok,"caps_ok":got == want})
}

fn quote_case(case: &Value) -> Value {
    let s: String = chars(&case["s"]);
    let protected: Vec<u8> = case["protected"].as_array().unwrap().iter().map(|x| x.as_u64().unwrap() as u8).collect();
    let q = Quoter::new(b"", &protected);
    let out = q.requote(s.as_bytes()).unwrap_or_else(|| s.as_bytes().to_vec());
    // the same decoder as applications meet it: the path of a request URL is the decoded bytes (escapes of '%', '/', '+' kept),
    // read as UTF-8 with replacement characters - never the text as received because some escape is not UTF-8
    let path = format!("/{s}");
    let url_ok = match path.parse::<actix_web::http::Uri>() {
        Ok(uri) => {
            let url = actix_router::Url::new(uri);
            let dq = Quoter::new(b"", b"%/+");
            let want = dq.requote(path.as_bytes()).map(|d| String::from_utf8_lossy(&d).into_owned()).unwrap_or_else(|| path.clone());
            url.path() == want
        }
        Err(_) => true,
    };
    json!({"ev":"quote","s":case["s"],"protected":case["protected"],"out":out,"url_ok":url_ok})
}

pub fn replay(cases: &[Value], out: &mut TraceOut) {
    for (i, case) in cases.iter().enumerate() {
        out.reset(i + 1);
        let r = guarded(|| match case["kind"].as_str().unwrap() {
            "match" => match_case(case),
            "quote" => quote_case(case),
            "longmatch" => long_case(case),
            k => panic!("kind {k}"),
        });
        match r {
            Ok(ev) => out.emit(ev),
            Err(p) => out.emit(json!({"ev":"Panic","msg":p,"case":case})),
        }
    }
}
