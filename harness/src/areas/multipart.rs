//! C15: public `actix_multipart::Multipart::new(headers, stream)` fed by a scripted chunk stream
//! under a wake-driven poll loop (spec/multipart/MpRef.tla).
use crate::util::{guarded, TraceOut};
use actix_multipart::Multipart;
use actix_web::http::header::{HeaderMap, HeaderName, HeaderValue};
use bytes::Bytes;
use futures_core::Stream;
use serde_json::{json, Value};
use std::{
    cell::RefCell,
    collections::VecDeque,
    pin::Pin,
    rc::Rc,
    sync::{
        atomic::{AtomicUsize, Ordering},
        Arc,
    },
    task::{Context, Poll, Wake, Waker},
};

struct CountWaker(AtomicUsize);
impl Wake for CountWaker {
    fn wake(self: Arc<Self>) {
        self.0.fetch_add(1, Ordering::SeqCst);
    }
    fn wake_by_ref(self: &Arc<Self>) {
        self.0.fetch_add(1, Ordering::SeqCst);
    }
}

#[derive(Default)]
struct Src {
    q: VecDeque<Bytes>,
    eof: bool,
    waker: Option<Waker>,
}
struct ChunkStream(Rc<RefCell<Src>>);
impl Stream for ChunkStream {
    type Item = Result<Bytes, actix_web::error::PayloadError>;
    fn poll_next(self: Pin<&mut Self>, cx: &mut Context<'_>) -> Poll<Option<Self::Item>> {
        let mut s = self.0.borrow_mut();
        if let Some(b) = s.q.pop_front() {
            Poll::Ready(Some(Ok(b)))
        } else if s.eof {
            Poll::Ready(None)
        } else {
            s.waker = Some(cx.waker().clone());
            Poll::Pending
        }
    }
}

fn latin1(s: &str) -> Vec<u8> {
    s.chars().map(|c| c as u32 as u8).collect()
}

/// Consumer: next field -> all its chunks -> next field ...; polled only when woken or after a feed.
/// runs one case and returns its events (used by the totality area)
pub fn collect_events(case: &Value) -> Vec<Value> {
    let mut v = vec![];
    run_case(case, &mut |e| v.push(e));
    v
}

fn run_case(case: &Value, out: &mut dyn FnMut(Value)) {
    let body = latin1(case["body"].as_str().unwrap());
    let boundary = case["boundary"].as_str().unwrap();
    let mut headers = HeaderMap::new();
    headers.insert(
        HeaderName::from_static("content-type"),
        HeaderValue::from_str(&format!("multipart/form-data; boundary={boundary}")).unwrap(),
    );
    let src = Rc::new(RefCell::new(Src::default()));
    // buffer-limit cases go through the extractor, the only public way to configure the parser's buffer limit
    let limit = case.get("limit").and_then(|l| l.as_u64()).map(|l| l as usize);
    let live0 = crate::alloc::live();
    crate::alloc::reset_peak();
    let mut mp = match limit {
        None => Multipart::new(&headers, ChunkStream(src.clone())),
        Some(l) => {
            use actix_web::FromRequest as _;
            let req = actix_web::test::TestRequest::default()
                .insert_header(("content-type", format!("multipart/form-data; boundary={boundary}")))
                .app_data(actix_multipart::MultipartConfig::default().buffer_limit(l))
                .to_http_request();
            let boxed: Pin<Box<dyn Stream<Item = Result<Bytes, actix_web::error::PayloadError>>>> = Box::pin(ChunkStream(src.clone()));
            let mut pl = actix_web::dev::Payload::Stream { payload: boxed };
            Multipart::from_request(&req, &mut pl).into_inner().expect("multipart extractor")
        }
    };
    let mut max_chunk = 0usize;
    let mut got_len = 0usize;
    let mut got_ok = true;
    // reports what the parser held at most (heap high-water mark above the level before it was created)
    let held = |out: &mut dyn FnMut(Value), max_chunk: usize| {
        if let Some(l) = limit {
            out(json!({"ev":"Held","peak": crate::alloc::peak().saturating_sub(live0),"limit": l,"chunk": max_chunk}));
        }
    };
    let fields = case["fields"].as_array().unwrap();
    let cw = Arc::new(CountWaker(AtomicUsize::new(1)));
    let waker = Waker::from(cw.clone());
    let mut cur: Option<actix_multipart::Field> = None;
    let mut idx = 0usize;
    let mut got: Vec<u8> = vec![];
    let mut finished = false;
    let mut segs: VecDeque<usize> = case["segs"].as_array().unwrap().iter().map(|x| x.as_u64().unwrap() as usize).collect();
    let mut pos = 0usize;
    let mut polls = 0usize;
    let burst = case.get("burst").and_then(|b| b.as_u64()).unwrap_or(1).max(1) as usize;
    loop {
        // drive the consumer while it is woken
        while !finished && cw.0.swap(0, Ordering::SeqCst) > 0 {
            loop {
                polls += 1;
                if polls > 200_000 {
                    out(json!({"ev":"Stall","why":"poll budget exhausted"}));
                    held(out, max_chunk);
                    return;
                }
                let mut cx = Context::from_waker(&waker);
                if let Some(f) = cur.as_mut() {
                    match Pin::new(f).poll_next(&mut cx) {
                        Poll::Pending => break,
                        Poll::Ready(Some(Ok(b))) => {
                            if limit.is_some() {
                                // long contents are one repeated byte pattern: compare on the fly, keep nothing
                                let want = fields.get(idx - 1).map(|f| f["content"].as_str().unwrap().as_bytes()).unwrap_or(b"");
                                got_ok &= got_len + b.len() <= want.len() && &want[got_len..got_len + b.len()] == b.as_ref();
                                got_len += b.len();
                            } else {
                                got.extend_from_slice(&b)
                            }
                        }
                        Poll::Ready(Some(Err(e))) => {
                            out(json!({"ev":"Err","kind":format!("{e:?}").split(|c: char| !c.is_alphanumeric()).next().unwrap_or(""),"in":"field"}));
                            finished = true;
                            break;
                        }
                        Poll::Ready(None) => {
                            if limit.is_some() {
                                out(json!({"ev":"FieldEnd","n":got_len,"ok":got_ok}));
                                got_len = 0;
                                got_ok = true;
                            } else {
                                let want = fields.get(idx - 1).map(|f| latin1(f["content"].as_str().unwrap())).unwrap_or_default();
                                out(json!({"ev":"FieldEnd","n":got.len(),"ok":got == want}));
                            }
                            cur = None;
                            got.clear();
                        }
                    }
                } else {
                    match Pin::new(&mut mp).poll_next(&mut cx) {
                        Poll::Pending => break,
                        Poll::Ready(Some(Ok(f))) => {
                            idx += 1;
                            let want = fields.get(idx - 1).and_then(|f| f["name"].as_str()).unwrap_or("\u{0}");
                            out(json!({"ev":"Field","name_ok": f.name() == Some(want)}));
                            cur = Some(f);
                        }
                        Poll::Ready(Some(Err(e))) => {
                            out(json!({"ev":"Err","kind":format!("{e:?}").split(|c: char| !c.is_alphanumeric()).next().unwrap_or(""),"in":"multipart"}));
                            finished = true;
                            break;
                        }
                        Poll::Ready(None) => {
                            out(json!({"ev":"End"}));
                            finished = true;
                            break;
                        }
                    }
                }
            }
        }
        if finished {
            held(out, max_chunk);
            return;
        }
        // environment: next segment, then end of stream
        let mut s = src.borrow_mut();
        if pos < body.len() {
            // `burst` chunks become ready together before the consumer is polled again
            for _ in 0..burst {
                if pos >= body.len() {
                    break;
                }
                let n = segs.pop_front().unwrap_or(body.len() - pos).clamp(1, body.len() - pos);
                max_chunk = max_chunk.max(n);
                s.q.push_back(Bytes::copy_from_slice(&body[pos..pos + n]));
                pos += n;
            }
        } else if !s.eof {
            s.eof = true;
        } else {
            drop(s);
            out(json!({"ev":"Stall","why":"pending after end of stream without a wake-up"}));
            held(out, max_chunk);
            return;
        }
        if let Some(w) = s.waker.take() {
            w.wake();
        } else {
            // nobody is waiting on the stream: the consumer must be polled again by whoever feeds it
            cw.0.fetch_add(1, Ordering::SeqCst);
        }
    }
}

pub fn replay(cases: &[Value], out: &mut TraceOut) {
    for (i, case) in cases.iter().enumerate() {
        let gt: Vec<Value> = case["fields"].as_array().unwrap().iter().map(|f| json!({"name": f["name"], "len": f["content"].as_str().unwrap().chars().count()})).collect();
        out.emit(json!({"ev":"Reset","run":i+1,"fields":gt,"complete":case["complete"],"lie":case["lie"]}));
        if let Err(p) = guarded(|| run_case(case, &mut |e| out.emit(e))) {
            out.emit(json!({"ev":"Panic","msg":p}));
        }
    }
}
