//! C07: drives the public `actix_http::h1::Payload::create()` pair with counting wakers
//! (alphabet: spec/payload/PayloadRef.tla).  Every fed chunk is filled with its id byte so that
//! whatever the reader receives can be run-length decoded into <<id, n>> runs, independently of
//! how the implementation chooses to chunk the data.
use crate::util::{guarded, TraceOut};
use actix_http::{
    error::PayloadError,
    h1::Payload,
};
use bytes::Bytes;
use futures_core::Stream;
use serde_json::{json, Value};
use std::{
    pin::Pin,
    sync::{
        atomic::{AtomicUsize, Ordering},
        Arc,
    },
    task::{Context, Poll, Wake, Waker},
};

pub struct CountWaker(pub AtomicUsize);
impl Wake for CountWaker {
    fn wake(self: Arc<Self>) {
        self.0.fetch_add(1, Ordering::SeqCst);
    }
    fn wake_by_ref(self: &Arc<Self>) {
        self.0.fetch_add(1, Ordering::SeqCst);
    }
}

fn runs(b: &[u8]) -> Vec<Value> {
    let mut out: Vec<(u8, usize)> = vec![];
    for &x in b {
        match out.last_mut() {
            Some((id, n)) if *id == x => *n += 1,
            _ => out.push((x, 1)),
        }
    }
    out.into_iter().map(|(id, n)| json!([id, n])).collect()
}

/// abstract size (model units, LIM = 10) -> real bytes (LIM = 32768); sizes >= 100 are taken literally
pub fn real_size(n: u64) -> usize {
    match n {
        0..=8 => n as usize,
        9..=99 => (32768 + n as i64 - 10) as usize,
        _ => n as usize,
    }
}

fn err_of(e: &str) -> PayloadError {
    match e {
        "overflow" => PayloadError::Overflow,
        "corrupt" => PayloadError::EncodingCorrupted,
        "unknown_length" => PayloadError::UnknownLength,
        _ => PayloadError::Incomplete(None),
    }
}
fn err_name(e: &PayloadError) -> &'static str {
    match e {
        PayloadError::Overflow => "overflow",
        PayloadError::EncodingCorrupted => "corrupt",
        PayloadError::UnknownLength => "unknown_length",
        PayloadError::Incomplete(_) => "incomplete",
        _ => "other",
    }
}

pub fn replay(cases: &[Value], out: &mut TraceOut) {
    for (i, case) in cases.iter().enumerate() {
        let eof = case["eof"].as_bool().unwrap_or(false);
        out.emit(json!({"ev":"Reset","run":i+1,"eof":eof}));
        let (tx, rx) = Payload::create(eof);
        let mut tx = Some(tx); // PayloadSender is not nameable from outside the crate
        let mut rx: Option<Payload> = Some(rx);
        // every poll / need_read uses a NEW waker: the party that must be woken is whoever asked last
        let mut rw = Arc::new(CountWaker(AtomicUsize::new(0)));
        let mut iw = Arc::new(CountWaker(AtomicUsize::new(0)));
        for op in case["ops"].as_array().unwrap() {
            let o = op["op"].as_str().unwrap();
            let (mut r0, mut i0) = (rw.0.load(Ordering::SeqCst), iw.0.load(Ordering::SeqCst));
            let res = guarded(|| -> Option<Value> {
                match o {
                    "FeedData" => {
                        let id = op["id"].as_u64().unwrap();
                        let n = real_size(op["n"].as_u64().unwrap());
                        tx.as_mut()?.feed_data(Bytes::from(vec![id as u8; n]));
                        Some(json!({"ev":"FeedData","id":id,"n":n}))
                    }
                    "FeedEof" => {
                        tx.as_mut()?.feed_eof();
                        Some(json!({"ev":"FeedEof"}))
                    }
                    "SetError" => {
                        let e = op["e"].as_str().unwrap();
                        tx.as_mut()?.set_error(err_of(e));
                        Some(json!({"ev":"SetError","e":e}))
                    }
                    "DropSender" => {
                        tx.take()?;
                        Some(json!({"ev":"DropSender"}))
                    }
                    "NeedRead" => {
                        iw = Arc::new(CountWaker(AtomicUsize::new(0)));
                        i0 = 0;
                        let iwaker = Waker::from(iw.clone());
                        let mut cx = Context::from_waker(&iwaker);
                        let st = tx.as_ref()?.need_read(&mut cx);
                        let ret = format!("{st:?}").to_lowercase(); // PayloadStatus: Read | Pause | Dropped
                        Some(json!({"ev":"NeedRead","ret":ret}))
                    }
                    "Poll" => {
                        rw = Arc::new(CountWaker(AtomicUsize::new(0)));
                        r0 = 0;
                        let rwaker = Waker::from(rw.clone());
                        let mut cx = Context::from_waker(&rwaker);
                        match Pin::new(rx.as_mut()?).poll_next(&mut cx) {
                            Poll::Pending => Some(json!({"ev":"Poll","ret":"pending"})),
                            Poll::Ready(None) => Some(json!({"ev":"Poll","ret":"none"})),
                            Poll::Ready(Some(Ok(b))) => Some(json!({"ev":"Poll","ret":"chunk","runs":runs(&b)})),
                            Poll::Ready(Some(Err(e))) => Some(json!({"ev":"Poll","ret":"err","e":err_name(&e)})),
                        }
                    }
                    "Unread" => {
                        let id = op["id"].as_u64().unwrap();
                        let n = real_size(op["n"].as_u64().unwrap());
                        rx.as_mut()?.unread_data(Bytes::from(vec![id as u8; n]));
                        Some(json!({"ev":"Unread","id":id,"n":n}))
                    }
                    "DropReader" => {
                        rx.take()?;
                        Some(json!({"ev":"DropReader"}))
                    }
                    other => panic!("unknown op {other}"),
                }
            });
            match res {
                Ok(Some(mut ev)) => {
                    ev["dr"] = json!(rw.0.load(Ordering::SeqCst) - r0);
                    ev["di"] = json!(iw.0.load(Ordering::SeqCst) - i0);
                    out.emit(ev);
                }
                Ok(None) => {} // op not applicable (handle already dropped): skipped, nothing observed
                Err(p) => {
                    out.emit(json!({"ev":"Panic","during":o,"msg":p,"dr":0,"di":0}));
                    break;
                }
            }
        }
    }
}
