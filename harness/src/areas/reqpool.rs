//! C11: histories of requests through ONE service instance (request objects are recycled through
//! the per-worker pool); every response is a dump of everything reachable from `HttpRequest` and is
//! compared with the dump of the same request sent to a FRESH service instance.
use crate::util::TraceOut;
use actix_web::{
    dev::{Service, ServiceRequest},
    test, web, App, HttpMessage, HttpRequest, HttpResponse,
};
use serde_json::{json, Value};
use std::{cell::RefCell, rc::Rc};

#[derive(Clone, Copy)]
struct Tag(u64);
struct Marker(#[allow(dead_code)] String);

type Held = Rc<RefCell<Vec<HttpRequest>>>;

fn dump(req: &HttpRequest, stage: &str) -> Value {
    let mi: Vec<Value> = req.match_info().iter().map(|(n, v)| json!([n, v])).collect();
    let hdrs: Vec<String> = {
        let mut h: Vec<String> = req.headers().iter().map(|(n, v)| format!("{}={}", n, v.to_str().unwrap_or("?"))).collect();
        h.sort();
        h
    };
    json!({
        "stage": stage,
        "path": req.path(),
        "query": req.query_string(),
        "uri": req.uri().to_string(),
        "match_info": mi,
        "unprocessed": req.match_info().unprocessed(),
        "pattern": req.match_pattern(),
        "name": req.match_name(),
        "data": req.app_data::<Tag>().map(|t| t.0),
        "has_marker": req.extensions().get::<Marker>().is_some(),
        "ext_empty": req.extensions().get::<Marker>().is_none() && req.extensions().get::<u8>().is_none(),
        "conn_data": req.conn_data::<u32>().copied(),
        "headers": hdrs,
    })
}

async fn handler(req: HttpRequest, held: web::Data<Held>) -> HttpResponse {
    let before = dump(&req, "handler");
    req.extensions_mut().insert(Marker(req.path().to_owned()));
    req.extensions_mut().insert(7u8);
    if req.headers().contains_key("x-hold") {
        held.borrow_mut().push(req.clone());
    }
    HttpResponse::Ok().body(before.to_string())
}

fn app(held: Held) -> App<impl actix_service::ServiceFactory<ServiceRequest, Config = (), Response = actix_web::dev::ServiceResponse, Error = actix_web::Error, InitError = ()>> {
    App::new()
        .app_data(Tag(1))
        .app_data(web::Data::new(held))
        .wrap_fn(|req: ServiceRequest, srv| {
            // what a middleware sees before routing
            let d = dump(req.request(), "middleware");
            let fut = srv.call(req);
            async move {
                let mut res = fut.await?;
                res.headers_mut().insert(
                    actix_web::http::header::HeaderName::from_static("x-mw"),
                    actix_web::http::header::HeaderValue::from_str(&d.to_string().replace(|c: char| !(' '..='~').contains(&c), "?")).unwrap(),
                );
                Ok(res)
            }
        })
        .service(web::scope("/s/{x}").app_data(Tag(2)).service(web::resource("/r/{y}").name("deep").app_data(Tag(3)).to(handler)).service(web::resource("/q").to(handler)))
        .service(web::resource("/flat").name("flat").to(handler))
        .service(web::resource("/t/{tail}*").to(handler))
        .default_service(web::to(handler))
}

fn uri_of(k: &str, n: usize) -> String {
    match k {
        "deep" => "/s/1/r/2?a=1".into(),
        "deep2" => "/s/3%20x/r/4".into(),
        "flat" => "/flat".into(),
        "miss" => format!("/nowhere/{n}"),
        "smiss" => "/s/5/unknown".into(),
        "tail" => "/t/a/b/c".into(),
        "q" => "/s/9/q".into(),
        _ => "/flat".into(),
    }
}

pub fn replay(cases: &[Value], out: &mut TraceOut) {
    let sys = actix_rt::System::new();
    sys.block_on(async {
        for (i, case) in cases.iter().enumerate() {
            out.reset(i + 1);
            let held: Held = Rc::new(RefCell::new(vec![]));
            let svc = test::init_service(app(held.clone())).await;
            for (n, st) in case["hist"].as_array().unwrap().iter().enumerate() {
                let k = st["k"].as_str().unwrap();
                if k == "release" {
                    held.borrow_mut().clear();
                    out.emit(json!({"ev":"release"}));
                    continue;
                }
                let reps = st.get("times").and_then(|t| t.as_u64()).unwrap_or(1);
                for _ in 0..reps {
                    let hold = st["hold"].as_bool().unwrap_or(false);
                    let mk = |hold: bool| {
                        let mut r = test::TestRequest::get().uri(&uri_of(k, n)).insert_header(("x-kind", k));
                        if hold {
                            r = r.insert_header(("x-hold", "1"));
                        }
                        r.to_request()
                    };
                    let res = test::call_service(&svc, mk(hold)).await;
                    let mw = res.headers().get("x-mw").map(|v| v.to_str().unwrap_or("").to_owned()).unwrap_or_default();
                    let body = String::from_utf8_lossy(&test::read_body(res).await).into_owned();
                    // the same request against a fresh instance
                    let fheld: Held = Rc::new(RefCell::new(vec![]));
                    let fresh = test::init_service(app(fheld.clone())).await;
                    let fres = test::call_service(&fresh, mk(hold)).await;
                    let fmw = fres.headers().get("x-mw").map(|v| v.to_str().unwrap_or("").to_owned()).unwrap_or_default();
                    let fbody = String::from_utf8_lossy(&test::read_body(fres).await).into_owned();
                    let same = body == fbody && mw == fmw;
                    let mut diff = String::new();
                    if !same {
                        let (a, b): (Value, Value) = (serde_json::from_str(&body).unwrap_or(json!({})), serde_json::from_str(&fbody).unwrap_or(json!({})));
                        if let (Some(a), Some(b)) = (a.as_object(), b.as_object()) {
                            for (key, v) in a {
                                if b.get(key) != Some(v) {
                                    diff = format!("handler.{key}");
                                    break;
                                }
                            }
                        }
                        if diff.is_empty() {
                            diff = "middleware".into();
                        }
                    }
                    out.emit(json!({"ev":"req","k":k,"hold":hold,"same":same,"diff":diff}));
                }
            }
        }
    });
}
