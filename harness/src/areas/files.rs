//! C16: `actix_files::Files` mounted on a temp tree with a canary file outside the root, driven
//! through `actix_web::test` (spec/files/FilesRef.tla).
use crate::util::TraceOut;
use actix_web::{http::header, test, App};
use serde_json::{json, Value};
use std::{fs, path::PathBuf};

const INSIDE: &[u8] = b"INSIDE-CANARY";
const OUTSIDE: &[u8] = b"OUTSIDE-CANARY-SECRET";

fn big(n: usize) -> Vec<u8> {
    (0..n).map(|k| (k * 7 + (k >> 9)) as u8).collect()
}

struct Tree {
    base: PathBuf,
    root: PathBuf,
}
impl Tree {
    fn new() -> Tree {
        let base = std::env::temp_dir().join(format!("verif-files-{}", std::process::id()));
        let _ = fs::remove_dir_all(&base);
        let root = base.join("root");
        fs::create_dir_all(root.join("in/sub")).unwrap();
        fs::create_dir_all(root.join(".hid")).unwrap();
        fs::create_dir_all(root.join("%2e%2e")).unwrap();
        for d in ["", "in", "in/sub", ".hid", "%2e%2e"] {
            fs::write(root.join(d).join("canary.txt"), INSIDE).unwrap();
        }
        fs::write(base.join("canary.txt"), OUTSIDE).unwrap();
        fs::write(root.join("f0"), b"").unwrap();
        fs::write(root.join("f1"), b"x").unwrap();
        fs::write(root.join("f3"), b"abc").unwrap();
        fs::write(root.join("big"), big(70000)).unwrap();
        fs::write(root.join("big2"), big(200000)).unwrap();
        Tree { base, root }
    }
}
impl Drop for Tree {
    fn drop(&mut self) {
        let _ = fs::remove_dir_all(&self.base);
    }
}

fn tok(t: &str) -> &'static str {
    match t {
        "N" => "in",
        "F" => "canary.txt",
        "H" => ".hid",
        "DOT" => ".",
        "DD" => "..",
        "E" => "",
        "EDD" => "%2e%2e",
        "ESL" => "..%2f",
        "BSL" => "..%5c..",
        "BADUTF" => "%ff",
        "STAR" => "*x",
        "COLON" => "x:",
        "DENC" => "%252e%252e",
        "NUL" => "%00",
        _ => "zz",
    }
}

fn file_len(name: &str) -> usize {
    match name {
        "f0" => 0,
        "f1" => 1,
        "f3" => 3,
        "big" => 70000,
        _ => 200000,
    }
}
fn file_bytes(name: &str) -> Vec<u8> {
    match name {
        "f0" => vec![],
        "f1" => b"x".to_vec(),
        "f3" => b"abc".to_vec(),
        "big" => big(70000),
        _ => big(200000),
    }
}

pub fn replay(cases: &[Value], out: &mut TraceOut) {
    let tree = Tree::new();
    let root = tree.root.clone();
    let sys = actix_rt::System::new();
    sys.block_on(async {
        let app = test::init_service(
            App::new()
                .service(actix_files::Files::new("/s", root.clone()))
                .service(actix_files::Files::new("/", root.clone()).use_hidden_files()),
        )
        .await;
        for (i, case) in cases.iter().enumerate() {
            out.reset(i + 1);
            match case["kind"].as_str().unwrap() {
                "path" => {
                    let mut path = String::new();
                    if let Some(raw) = case.get("raw").and_then(|r| r.as_str()) {
                        path.push_str(raw);
                    } else {
                        if case.get("mount").and_then(|m| m.as_str()) == Some("s") {
                            path.push_str("/s");
                        }
                        for t in case["toks"].as_array().unwrap() {
                            path.push('/');
                            path.push_str(tok(t.as_str().unwrap()));
                        }
                        if case.get("append_file").and_then(|m| m.as_bool()).unwrap_or(true) {
                            path.push_str("/canary.txt");
                        }
                    }
                    let uri: Result<actix_web::http::Uri, _> = path.parse();
                    if uri.is_err() {
                        out.emit(json!({"ev":"path","status":400,"served":"none","path":path,"note":"not a valid request target"}));
                        continue;
                    }
                    let req = test::TestRequest::get().uri(&path).to_request();
                    let fut = test::call_service(&app, req);
                    match std::panic::AssertUnwindSafe(fut).catch_unwind_compat().await {
                        Err(p) => out.emit(json!({"ev":"Panic","msg":p,"path":path})),
                        Ok(res) => {
                            let status = res.status().as_u16();
                            let body = test::read_body(res).await;
                            let served = if body.as_ref() == OUTSIDE || find(&body, OUTSIDE) {
                                "outside"
                            } else if body.as_ref() == INSIDE {
                                "inside"
                            } else {
                                "none"
                            };
                            out.emit(json!({"ev":"path","status":status,"served":served,"path":path}));
                        }
                    }
                }
                "cond" => {
                    // conditional requests against the validator the service itself hands out
                    let name = case["file"].as_str().unwrap();
                    let l = file_len(name);
                    let first = test::call_service(&app, test::TestRequest::get().uri(&format!("/{name}")).to_request()).await;
                    let etag = first.headers().get(header::ETAG).and_then(|v| v.to_str().ok()).unwrap_or("").to_owned();
                    let _ = test::read_body(first).await;
                    let weak = if let Some(rest) = etag.strip_prefix("W/") { rest.to_owned() } else { etag.clone() };
                    let variant = case["variant"].as_str().unwrap();
                    let (hname, hval) = match variant {
                        "inm-same" => ("if-none-match", etag.clone()),
                        "inm-weak" => ("if-none-match", format!("W/{weak}")),
                        "inm-list" => ("if-none-match", format!("\"zzz\", W/{weak}")),
                        "inm-other" => ("if-none-match", "\"zzz\"".to_owned()),
                        "im-same" => ("if-match", etag.clone()),
                        "im-weak" => ("if-match", format!("W/{weak}")),
                        "im-other" => ("if-match", "\"zzz\"".to_owned()),
                        v => panic!("variant {v}"),
                    };
                    let res = test::call_service(&app, test::TestRequest::get().uri(&format!("/{name}")).insert_header((hname, hval)).to_request()).await;
                    let status = res.status().as_u16();
                    let body = test::read_body(res).await;
                    out.emit(json!({"ev":"cond","variant":variant,"status":status,"blen":body.len(),"L":l,"strong":!etag.starts_with("W/") && !etag.is_empty(),"file":name}));
                }
                "range" => {
                    let name = case["file"].as_str().unwrap();
                    let l = file_len(name);
                    let mut rb = test::TestRequest::get().uri(&format!("/{name}"));
                    let hdr = case["hdr"].as_str().unwrap_or("");
                    if !hdr.is_empty() {
                        rb = rb.insert_header((header::RANGE, hdr));
                    }
                    let mut cond = false;
                    if let Some(cs) = case.get("cond").and_then(|c| c.as_array()) {
                        for c in cs {
                            rb = rb.insert_header((c[0].as_str().unwrap(), c[1].as_str().unwrap()));
                            cond = true;
                        }
                    }
                    let fut = test::call_service(&app, rb.to_request());
                    match std::panic::AssertUnwindSafe(fut).catch_unwind_compat().await {
                        Err(p) => out.emit(json!({"ev":"Panic","msg":p,"hdr":hdr,"file":name})),
                        Ok(res) => {
                            let status = res.status().as_u16();
                            let cr = res.headers().get(header::CONTENT_RANGE).and_then(|v| v.to_str().ok()).unwrap_or("").to_owned();
                            let clen: i64 = res.headers().get(header::CONTENT_LENGTH).and_then(|v| v.to_str().ok()).and_then(|v| v.parse().ok()).unwrap_or(-1);
                            let (mut a, mut b, mut total) = (-1i64, -1i64, -1i64);
                            if let Some(rest) = cr.strip_prefix("bytes ") {
                                if let Some((r, t)) = rest.split_once('/') {
                                    total = t.parse().unwrap_or(-2);
                                    if let Some((x, y)) = r.split_once('-') {
                                        a = x.parse().unwrap_or(-2);
                                        b = y.parse().unwrap_or(-2);
                                    }
                                }
                            }
                            let body = match std::panic::AssertUnwindSafe(test::try_read_body(res)).catch_unwind_compat().await {
                                Ok(Ok(b)) => b.to_vec(),
                                Ok(Err(_)) => b"<body error>".to_vec(),
                                Err(_) => b"<panic in body>".to_vec(),
                            };
                            let full = file_bytes(name);
                            let body_ok = if status == 206 && a >= 0 && b >= a && (b as usize) < full.len() {
                                body == full[a as usize..=b as usize]
                            } else if status == 200 {
                                body == full
                            } else {
                                true
                            };
                            let clen = if clen < 0 { body.len() as i64 } else { clen };
                            out.emit(json!({"ev":"range","L":l,"hdr":hdr,"hasrange":!hdr.is_empty(),"cond":cond,"status":status,"a":a,"b":b,"total":total,
                                            "blen":body.len(),"body_ok":body_ok,"clen":clen}));
                        }
                    }
                }
                k => panic!("kind {k}"),
            }
        }
    });
}

fn find(h: &[u8], n: &[u8]) -> bool {
    h.windows(n.len()).any(|w| w == n)
}

/// `FutureExt::catch_unwind` without pulling in futures-util's std feature: poll inside catch_unwind
trait CatchUnwindCompat: std::future::Future + Sized {
    fn catch_unwind_compat(self) -> CatchUnwind<Self> {
        CatchUnwind(Box::pin(self))
    }
}
impl<F: std::future::Future + std::panic::UnwindSafe> CatchUnwindCompat for F {}
struct CatchUnwind<F>(std::pin::Pin<Box<F>>);
impl<F: std::future::Future> std::future::Future for CatchUnwind<F> {
    type Output = Result<F::Output, String>;
    fn poll(mut self: std::pin::Pin<&mut Self>, cx: &mut std::task::Context<'_>) -> std::task::Poll<Self::Output> {
        let inner = &mut self.0;
        match crate::util::guarded(|| inner.as_mut().poll(cx)) {
            Ok(std::task::Poll::Pending) => std::task::Poll::Pending,
            Ok(std::task::Poll::Ready(v)) => std::task::Poll::Ready(Ok(v)),
            Err(p) => std::task::Poll::Ready(Err(p)),
        }
    }
}
