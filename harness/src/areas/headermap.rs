//! C18: drives the public `actix_http::header::HeaderMap` API with operation sequences and logs
//! the full observable result of every call (alphabet: DESIGN.md A.4, spec/headermap/HeaderMapRef.tla).
use crate::util::{guarded, TraceOut};
use actix_http::header::{HeaderMap, HeaderName, HeaderValue};
use serde_json::{json, Value};

fn name(k: &str) -> HeaderName {
    HeaderName::from_bytes(k.as_bytes()).unwrap()
}
fn val(v: i64) -> HeaderValue {
    HeaderValue::from_str(&v.to_string()).unwrap()
}
fn num(v: &HeaderValue) -> i64 {
    v.to_str().unwrap().parse().unwrap()
}
fn hint(h: (usize, Option<usize>)) -> Value {
    json!([h.0, h.1.map(|x| x as i64).unwrap_or(-1)])
}

fn keep(p: &str, n: &str, v: i64) -> bool {
    match p {
        "all" => true,
        "none" => false,
        "v1" => v == 1,
        "notv1" => v != 1,
        "ka" => n == "a",
        "notka" => n != "a",
        _ => true,
    }
}

/// Applies one operation; returns the event to log.
fn apply(map: &mut HeaderMap, op: &Value) -> Value {
    let o = op["op"].as_str().unwrap();
    let k = op["k"].as_str().unwrap_or("");
    let v = op["v"].as_i64().unwrap_or(0);
    match o {
        "insert" | "remove" => {
            let mut removed = if o == "insert" { map.insert(name(k), val(v)) } else { map.remove(k) };
            let h = removed.size_hint();
            let empty = removed.is_empty();
            // ExactSizeIterator::len asserts the contract; a panic here is an observation
            if let Err(p) = guarded(|| removed.len()) {
                return json!({"ev":"op","op":"panic","during": format!("{o}.removed.len: {p}")});
            }
            let vals: Vec<i64> = removed.by_ref().map(|x| num(&x)).collect();
            let after = removed.size_hint();
            json!({"ev":"op","op":o,"k":k,"v":v,"removed":vals,"hint":hint(h),"hint_after":hint(after),"empty":empty})
        }
        "append" => {
            map.append(name(k), val(v));
            json!({"ev":"op","op":"append","k":k,"v":v})
        }
        "get" => {
            let r = map.get(k).map(num).unwrap_or(0);
            let all: Vec<i64> = map.get_all(k).map(num).collect();
            json!({"ev":"op","op":"get","k":k,"r":r,"all":all,"contains":map.contains_key(k)})
        }
        "get_mut" => {
            let existed = match map.get_mut(k) {
                Some(slot) => {
                    *slot = val(v);
                    true
                }
                None => false,
            };
            json!({"ev":"op","op":"get_mut","k":k,"v":v,"existed":existed})
        }
        "stat" => json!({"ev":"op","op":"stat","len":map.len(),"len_keys":map.len_keys(),"is_empty":map.is_empty()}),
        "iter" => {
            let mut it = map.iter();
            if let Err(p) = guarded(|| it.len()) {
                return json!({"ev":"op","op":"panic","during": format!("iter.len: {p}")});
            }
            let mut hints = vec![hint(it.size_hint())];
            let mut items = vec![];
            while let Some((n, x)) = it.next() {
                items.push(json!([n.as_str(), num(x)]));
                hints.push(hint(it.size_hint()));
            }
            json!({"ev":"op","op":"iter","items":items,"hints":hints})
        }
        "into_iter" => {
            let mut it = map.clone().into_iter();
            if let Err(p) = guarded(|| it.len()) {
                return json!({"ev":"op","op":"panic","during": format!("into_iter.len: {p}")});
            }
            let mut hints = vec![hint(it.size_hint())];
            let mut items = vec![];
            while let Some((n, x)) = it.next() {
                items.push(json!([n.as_str(), num(&x)]));
                hints.push(hint(it.size_hint()));
            }
            json!({"ev":"op","op":"into_iter","items":items,"hints":hints})
        }
        "keys" => {
            let mut it = map.keys();
            if let Err(p) = guarded(|| it.len()) {
                return json!({"ev":"op","op":"panic","during": format!("keys.len: {p}")});
            }
            let mut hints = vec![hint(it.size_hint())];
            let mut names = vec![];
            while let Some(n) = it.next() {
                names.push(n.as_str().to_owned());
                hints.push(hint(it.size_hint()));
            }
            json!({"ev":"op","op":"keys","names":names,"hints":hints})
        }
        "drain" => {
            let c = op["c"].as_u64().unwrap() as usize;
            let mut it = map.drain();
            if let Err(p) = guarded(|| it.len()) {
                return json!({"ev":"op","op":"panic","during": format!("drain.len: {p}")});
            }
            let mut hints = vec![hint(it.size_hint())];
            let mut items = vec![];
            while items.len() < c {
                match it.next() {
                    Some((n, x)) => {
                        items.push(json!([n.map(|n| n.as_str().to_owned()).unwrap_or_default(), num(&x)]));
                        hints.push(hint(it.size_hint()));
                    }
                    None => break,
                }
            }
            drop(it);
            json!({"ev":"op","op":"drain","c":c,"items":items,"hints":hints})
        }
        "retain" => {
            let p = op["p"].as_str().unwrap();
            map.retain(|n, x| keep(p, n.as_str(), num(x)));
            json!({"ev":"op","op":"retain","p":p})
        }
        "clear" => {
            map.clear();
            json!({"ev":"op","op":"clear"})
        }
        "to_http" => {
            let h: http::HeaderMap = http::HeaderMap::from(&*map);
            let items: Vec<Value> = h.iter().map(|(n, x)| json!([n.as_str(), num(x)])).collect();
            // and the consuming conversion must agree with the borrowing one
            let h2: http::HeaderMap = map.clone().into();
            let items2: Vec<Value> = h2.iter().map(|(n, x)| json!([n.as_str(), num(x)])).collect();
            if items.len() != items2.len() {
                return json!({"ev":"op","op":"to_http","items":items2});
            }
            json!({"ev":"op","op":"to_http","items":items})
        }
        "from_http" => {
            let mut h = http::HeaderMap::new();
            for it in op["items"].as_array().unwrap() {
                h.append(name(it[0].as_str().unwrap()), val(it[1].as_i64().unwrap()));
            }
            *map = HeaderMap::from(h);
            json!({"ev":"op","op":"from_http","items":op["items"].clone()})
        }
        other => panic!("unknown op {other}"),
    }
}

pub fn replay(cases: &[Value], out: &mut TraceOut) {
    for (i, case) in cases.iter().enumerate() {
        out.reset(i + 1);
        let mut map = HeaderMap::new();
        for op in case["ops"].as_array().unwrap() {
            let ev = match guarded(|| apply(&mut map, op)) {
                Ok(ev) => ev,
                Err(p) => json!({"ev":"op","op":"panic","during": format!("{}: {p}", op["op"].as_str().unwrap_or("?"))}),
            };
            let stop = ev["op"] == "panic";
            out.emit(ev);
            if stop {
                break;
            }
        }
    }
}
