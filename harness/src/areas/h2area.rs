//! C08: the real `HttpService::build().h2(..)` over an in-memory duplex pipe, observed by an
//! `h2` client whose window sizes and capacity releases follow the script (spec/h2/H2Ref.tla).
use crate::util::TraceOut;
use actix_http::{
    body::{BodySize, MessageBody},
    HttpService, Request, Response, StatusCode,
};
use actix_service::{fn_service, Service, ServiceFactory};
use bytes::Bytes;
use serde_json::{json, Value};
use std::{
    cell::RefCell,
    pin::Pin,
    rc::Rc,
    task::{Context, Poll},
    time::Duration,
};

fn pat(i: usize, k: usize) -> u8 {
    b'a' + ((i * 7 + k + (k >> 7)) % 26) as u8
}

struct ProgBody {
    i: usize,
    chunks: Vec<usize>,
    idx: usize,
    off: usize,
    size: BodySize,
    end_err: bool,
    pend: bool,
    armed: bool,
    pulled: Rc<RefCell<Vec<usize>>>,
}
impl MessageBody for ProgBody {
    type Error = std::io::Error;
    fn size(&self) -> BodySize {
        self.size
    }
    fn poll_next(mut self: Pin<&mut Self>, cx: &mut Context<'_>) -> Poll<Option<Result<Bytes, Self::Error>>> {
        if self.pend && self.armed {
            self.armed = false;
            cx.waker().wake_by_ref();
            return Poll::Pending;
        }
        self.armed = true;
        if self.idx >= self.chunks.len() {
            if self.end_err {
                self.end_err = false;
                return Poll::Ready(Some(Err(std::io::Error::other("body program error"))));
            }
            return Poll::Ready(None);
        }
        let n = self.chunks[self.idx];
        self.idx += 1;
        let b: Vec<u8> = (0..n).map(|k| pat(self.i, self.off + k)).collect();
        self.off += n;
        {
            // bytes the dispatcher has pulled out of this stream's body so far
            let mut p = self.pulled.borrow_mut();
            if p.len() < self.i {
                p.resize(self.i, 0);
            }
            p[self.i - 1] += n;
        }
        Poll::Ready(Some(Ok(Bytes::from(b))))
    }
}

type Log = Rc<RefCell<Vec<Value>>>;

async fn one_stream(mut sr: h2::client::SendRequest<Bytes>, s: usize, st: Value, log: Log) {
    let method = st["method"].as_str().unwrap();
    let req = http::Request::builder().method(method).uri(format!("http://t/r{s}")).body(()).unwrap();
    sr = match sr.ready().await {
        Ok(x) => x,
        Err(_) => return,
    };
    let (resp, _) = match sr.send_request(req, true) {
        Ok(x) => x,
        Err(e) => {
            log.borrow_mut().push(json!({"ev":"Rst","s":s,"why":e.to_string()}));
            return;
        }
    };
    let resp = match tokio::time::timeout(Duration::from_secs(30), resp).await {
        Err(_) => {
            log.borrow_mut().push(json!({"ev":"Blocked","s":s,"where":"head"}));
            return;
        }
        Ok(Err(e)) => {
            log.borrow_mut().push(json!({"ev":"Rst","s":s,"why":e.to_string()}));
            return;
        }
        Ok(Ok(r)) => r,
    };
    let cl: i64 = resp.headers().get("content-length").and_then(|v| v.to_str().ok()).and_then(|v| v.parse().ok()).unwrap_or(-1);
    let hop = ["connection", "transfer-encoding", "upgrade", "keep-alive", "proxy-connection"].iter().any(|h| resp.headers().contains_key(*h));
    log.borrow_mut().push(json!({"ev":"Head","s":s,"status":resp.status().as_u16(),"cl":cl,"hop":hop}));
    let mut body = resp.into_body();
    let policy = st["policy"].as_str().unwrap_or("auto").to_owned();
    let step = st["release_step"].as_u64().unwrap_or(1) as usize;
    let mut off = 0usize;
    let mut unreleased = 0usize;
    loop {
        let item = match tokio::time::timeout(Duration::from_secs(30), body.data()).await {
            Err(_) => {
                // nothing arrived: is our window for this stream open?
                if unreleased > 0 && policy != "never" {
                    // release what we hold and try again (stepped policy)
                    let n = unreleased.min(step);
                    let _ = body.flow_control().release_capacity(n);
                    unreleased -= n;
                    continue;
                }
                log.borrow_mut().push(json!({"ev":"Blocked","s":s,"where":"body","got":off}));
                return;
            }
            Ok(x) => x,
        };
        match item {
            None => {
                log.borrow_mut().push(json!({"ev":"End","s":s,"n":off}));
                return;
            }
            Some(Err(e)) => {
                log.borrow_mut().push(json!({"ev":"Rst","s":s,"why":e.to_string(),"got":off}));
                return;
            }
            Some(Ok(b)) => {
                let ok = b.iter().enumerate().all(|(k, &x)| x == pat(s, off + k));
                off += b.len();
                log.borrow_mut().push(json!({"ev":"Data","s":s,"n":b.len(),"ok":ok}));
                match policy.as_str() {
                    "auto" => {
                        let _ = body.flow_control().release_capacity(b.len());
                    }
                    "never" => {}
                    "reset" => {
                        // client resets the stream after the first data frame
                        drop(body);
                        log.borrow_mut().push(json!({"ev":"ClientReset","s":s}));
                        return;
                    }
                    _ => {
                        // stepped: release a little now, the rest only when the stream would otherwise starve
                        unreleased += b.len();
                        let n = unreleased.min(step);
                        let _ = body.flow_control().release_capacity(n);
                        unreleased -= n;
                    }
                }
            }
        }
    }
}

fn run_case(case: &Value) -> Vec<Value> {
    let rt = tokio::runtime::Builder::new_current_thread().enable_time().start_paused(true).build().unwrap();
    let local = tokio::task::LocalSet::new();
    let case = case.clone();
    local.block_on(&rt, async move {
        let log: Log = Rc::new(RefCell::new(vec![]));
        let streams = Rc::new(case["streams"].clone());
        let st2 = streams.clone();
        let pulled: Rc<RefCell<Vec<usize>>> = Rc::new(RefCell::new(vec![]));
        let pulled2 = pulled.clone();
        let svc = HttpService::build()
            .h2(fn_service(move |req: Request| {
                let st = st2.clone();
                let pulled = pulled2.clone();
                async move {
                    let i: usize = req.path().strip_prefix("/r").and_then(|s| s.parse().ok()).unwrap_or(1);
                    let p = &st[i - 1];
                    let chunks: Vec<usize> = p["chunks"].as_array().unwrap().iter().map(|x| x.as_u64().unwrap() as usize).collect();
                    let total: usize = chunks.iter().sum();
                    let size = if p["sized"].as_bool().unwrap_or(false) { BodySize::Sized(p["declared"].as_u64().unwrap_or(total as u64)) } else { BodySize::Stream };
                    let mut b = Response::build(StatusCode::from_u16(p["status"].as_u64().unwrap() as u16).unwrap());
                    if p["hop_headers"].as_bool().unwrap_or(false) {
                        b.insert_header(("connection", "keep-alive"));
                        b.insert_header(("keep-alive", "timeout=5"));
                        b.insert_header(("transfer-encoding", "chunked"));
                    }
                    if p["user_cl"].as_bool().unwrap_or(false) {
                        b.insert_header(("content-length", total.to_string()));
                    }
                    let body = ProgBody { i, chunks, idx: 0, off: 0, size, end_err: p["end_err"].as_bool().unwrap_or(false), pend: p["pend"].as_bool().unwrap_or(false), armed: false, pulled };
                    Ok::<_, std::convert::Infallible>(b.body(body))
                }
            }))
            .new_service(())
            .await
            .unwrap();
        let (cio, sio) = tokio::io::duplex(1 << 16);
        let server = tokio::task::spawn_local(async move {
            let _ = svc.call((sio, None)).await;
        });
        let mut builder = h2::client::Builder::new();
        builder.initial_window_size(case["window"].as_u64().unwrap_or(65535) as u32);
        builder.initial_connection_window_size(case["conn_window"].as_u64().unwrap_or(1 << 20) as u32);
        builder.max_frame_size(16384);
        let (sr, conn) = match builder.handshake::<_, Bytes>(cio).await {
            Ok(x) => x,
            Err(e) => {
                log.borrow_mut().push(json!({"ev":"Rst","s":0,"why":e.to_string()}));
                return log.borrow().clone();
            }
        };
        let connt = tokio::task::spawn_local(async move {
            let _ = conn.await;
        });
        let mut tasks = vec![];
        for (k, st) in streams.as_array().unwrap().iter().enumerate() {
            tasks.push(tokio::task::spawn_local(one_stream(sr.clone(), k + 1, st.clone(), log.clone())));
        }
        drop(sr);
        for t in tasks {
            let _ = t.await;
        }
        // let the server side run on: whatever it still wants to pull from the body of a stream the client has reset, it pulls now
        for _ in 0..20 {
            tokio::time::sleep(std::time::Duration::from_millis(5)).await;
        }
        for (k, n) in pulled.borrow().iter().enumerate() {
            log.borrow_mut().push(json!({"ev":"Pulled","s":k + 1,"n":n}));
        }
        connt.abort();
        server.abort();
        log.borrow_mut().push(json!({"ev":"Done"}));
        let v = log.borrow().clone();
        v
    })
}

pub fn replay(cases: &[Value], out: &mut TraceOut) {
    for (i, case) in cases.iter().enumerate() {
        let gt: Vec<Value> = case["streams"]
            .as_array()
            .unwrap()
            .iter()
            .map(|p| {
                let chunks: Vec<u64> = p["chunks"].as_array().unwrap().iter().map(|x| x.as_u64().unwrap()).collect();
                let total: u64 = chunks.iter().sum();
                json!({"method":p["method"],"status":p["status"],"total":total,"sized":p["sized"].as_bool().unwrap_or(false),
                       "declared":p["declared"].as_u64().unwrap_or(total),"end_err":p["end_err"].as_bool().unwrap_or(false),
                       "policy":p["policy"].as_str().unwrap_or("auto"),"client_resets":p["policy"] == "reset","stuck_handler":false,
                       "maxchunk":chunks.iter().copied().max().unwrap_or(0)})
            })
            .collect();
        out.emit(json!({"ev":"Reset","run":i+1,"streams":gt,"window":case["window"].as_u64().unwrap_or(65535)}));
        match crate::util::guarded(|| run_case(case)) {
            Ok(evs) => {
                for e in evs {
                    out.emit(e);
                }
            }
            Err(p) => out.emit(json!({"ev":"Panic","msg":p})),
        }
    }
}
