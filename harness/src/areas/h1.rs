//! C01–C06: drives the real HTTP/1 dispatcher (`HttpService::build()…h1(..)`) over a scripted
//! in-memory socket under a wake-driven executor with virtual time (DESIGN.md 2.3).
//!
//! A case is an *open-loop* script: client bytes, the order in which segments / write budget /
//! handler and body tokens / clock ticks / signals arrive, and the handler programs.  The harness
//! polls the connection future only when its waker was woken, logs what an outside observer sees
//! (requests reaching the service, request-body chunks, the response stream as decoded by an
//! independent client-side parser, completion, time stamps) and TLC validates that trace against
//! spec/h1/H1Ref.tla.
use crate::util::TraceOut;
use actix_http::{
    body::{BodySize, BodyStream, BoxBody, MessageBody, SizedStream},
    header::{HeaderName, HeaderValue},
    HttpMessage as _, HttpService, KeepAlive, Request, Response, StatusCode,
};
use actix_codec::Framed;
use actix_http::h1::{Codec, Message};
use actix_service::{fn_service, Service, ServiceFactory};
use bytes::Bytes;
use futures_core::Stream;
use serde_json::{json, Value};
use std::{
    cell::RefCell,
    collections::HashMap,
    future::Future,
    io,
    pin::Pin,
    rc::Rc,
    sync::{
        atomic::{AtomicUsize, Ordering},
        Arc,
    },
    task::{Context, Poll, Wake, Waker},
    time::Duration,
};
use tokio::io::{AsyncRead, AsyncWrite, ReadBuf};

// ---------------------------------------------------------------------------------------------
// byte patterns shared with the Python generator (lib/h1gen.py)
// ---------------------------------------------------------------------------------------------
pub fn req_pat(i: usize, k: usize) -> u8 {
    ((i * 37 + k * 7 + (k >> 8)) % 251) as u8
}
pub fn resp_pat(i: usize, k: usize) -> u8 {
    b'a' + ((i * 5 + k + (k >> 6)) % 26) as u8
}
pub fn fnv31(data: &[u8], mut h: u32) -> u32 {
    for &b in data {
        h ^= b as u32;
        h = h.wrapping_mul(16777619);
    }
    h
}

// ---------------------------------------------------------------------------------------------
// wire generator: the client byte stream is produced lazily so that multi-megabyte scenarios
// do not sit in the harness's own memory
// ---------------------------------------------------------------------------------------------
enum Part {
    Lit(Vec<u8>),
    Body { i: usize, from: usize, n: usize },
    Fill { byte: u8, n: usize },
}
struct Wire {
    parts: Vec<Part>,
    part: usize,
    off: usize,
    total: usize,
}
impl Wire {
    fn parse(v: &Value) -> Wire {
        let mut parts = vec![];
        let mut total = 0;
        for p in v.as_array().unwrap() {
            if let Some(s) = p.get("s") {
                let b = s.as_str().unwrap().as_bytes().to_vec();
                total += b.len();
                parts.push(Part::Lit(b));
            } else if let Some(h) = p.get("hex") {
                let hs = h.as_str().unwrap().as_bytes();
                let b: Vec<u8> = hs.chunks(2).map(|c| u8::from_str_radix(std::str::from_utf8(c).unwrap(), 16).unwrap()).collect();
                total += b.len();
                parts.push(Part::Lit(b));
            } else if let Some(b) = p.get("body") {
                let (i, from, n) = (b[0].as_u64().unwrap() as usize, b[1].as_u64().unwrap() as usize, b[2].as_u64().unwrap() as usize);
                total += n;
                parts.push(Part::Body { i, from, n });
            } else if let Some(f) = p.get("fill") {
                let n = f[1].as_u64().unwrap() as usize;
                total += n;
                parts.push(Part::Fill { byte: f[0].as_u64().unwrap() as u8, n });
            }
        }
        Wire { parts, part: 0, off: 0, total }
    }
    /// copies up to buf.len() next bytes; returns the count
    fn take(&mut self, buf: &mut [u8]) -> usize {
        let mut w = 0;
        while w < buf.len() && self.part < self.parts.len() {
            let (plen, take) = match &self.parts[self.part] {
                Part::Lit(b) => {
                    let t = (b.len() - self.off).min(buf.len() - w);
                    buf[w..w + t].copy_from_slice(&b[self.off..self.off + t]);
                    (b.len(), t)
                }
                Part::Body { i, from, n } => {
                    let t = (n - self.off).min(buf.len() - w);
                    for j in 0..t {
                        buf[w + j] = req_pat(*i, from + self.off + j);
                    }
                    (*n, t)
                }
                Part::Fill { byte, n } => {
                    let t = (n - self.off).min(buf.len() - w);
                    for x in &mut buf[w..w + t] {
                        *x = *byte;
                    }
                    (*n, t)
                }
            };
            w += take;
            self.off += take;
            if self.off == plen {
                self.part += 1;
                self.off = 0;
            }
        }
        w
    }
}

// ---------------------------------------------------------------------------------------------
// the world: everything the script controls and everything the observer records
// ---------------------------------------------------------------------------------------------
#[derive(Default)]
struct Gate {
    tokens: usize,
    waker: Option<Waker>,
}

struct World {
    t0: tokio::time::Instant,
    quiet: bool,
    events: Vec<Value>,
    progress: u64, // bumped by every observable step of the system under test
    // socket, read side
    wire: Wire,
    avail: usize, // bytes the "kernel" holds for the server
    taken: usize, // bytes the server has read
    eof: bool,
    rst: bool,
    eof_seen: bool,
    rwaker: Option<Waker>,
    // socket, write side
    budget: i64, // -1 unlimited
    accepted: usize,
    wwaker: Option<Waker>,
    wpend: bool, // last poll_write returned Pending
    flush_pend: bool,
    fwaker: Option<Waker>,
    shutdown_mode: u8, // 0 ready, 1 pending until token, 2 never
    shutdown_tok: bool,
    swaker: Option<Waker>,
    shutdown_done: bool,
    zero_write: bool,
    parser: RespParser,
    // programs
    hgates: HashMap<usize, Gate>,
    bgates: HashMap<usize, Gate>,
    calls: usize,
    handed: usize, // request-body bytes handed to handlers
    handed_cur: usize, // ... of the most recently dispatched request
    pulled: usize, // response-body bytes pulled from handler bodies
    sig: Option<Waker>,
    sig_fired: bool,
}

impl World {
    fn t(&self) -> u64 {
        (tokio::time::Instant::now() - self.t0).as_millis() as u64
    }
    fn ev(&mut self, mut v: Value) {
        self.progress += 1;
        v["t"] = json!(self.t());
        self.events.push(v);
    }
    fn note(&mut self, mut v: Value) {
        v["t"] = json!(self.t());
        self.events.push(v);
    }
}
type W = Rc<RefCell<World>>;

// ---------------------------------------------------------------------------------------------
// scripted socket
// ---------------------------------------------------------------------------------------------
#[derive(Clone)]
struct Sock(W);

impl AsyncRead for Sock {
    fn poll_read(self: Pin<&mut Self>, cx: &mut Context<'_>, buf: &mut ReadBuf<'_>) -> Poll<io::Result<()>> {
        let mut w = self.0.borrow_mut();
        if w.avail > 0 {
            let n = w.avail.min(buf.remaining());
            let dst = buf.initialize_unfilled_to(n);
            let got = w.wire.take(dst);
            buf.advance(got);
            w.avail -= got;
            w.taken += got;
            w.progress += 1;
            Poll::Ready(Ok(()))
        } else if w.rst {
            w.progress += 1;
            Poll::Ready(Err(io::Error::new(io::ErrorKind::ConnectionReset, "reset by script")))
        } else if w.eof {
            if !w.eof_seen {
                w.eof_seen = true;
                w.progress += 1;
            }
            Poll::Ready(Ok(()))
        } else {
            w.rwaker = Some(cx.waker().clone());
            Poll::Pending
        }
    }
}

impl AsyncWrite for Sock {
    fn poll_write(self: Pin<&mut Self>, cx: &mut Context<'_>, b: &[u8]) -> Poll<io::Result<usize>> {
        let mut w = self.0.borrow_mut();
        if w.zero_write {
            return Poll::Ready(Ok(0));
        }
        if w.budget == 0 {
            w.wwaker = Some(cx.waker().clone());
            if !w.wpend {
                w.wpend = true;
                let n = b.len();
                w.note(json!({"ev":"WritePend","n":n}));
            }
            return Poll::Pending;
        }
        let k = if w.budget < 0 { b.len() } else { (w.budget as usize).min(b.len()) };
        if w.budget > 0 {
            w.budget -= k as i64;
        }
        w.wpend = false;
        w.accepted += k;
        w.progress += 1;
        let mut out = vec![];
        w.parser.feed(&b[..k], &mut out);
        for e in out {
            w.ev(e);
        }
        Poll::Ready(Ok(k))
    }
    fn poll_flush(self: Pin<&mut Self>, cx: &mut Context<'_>) -> Poll<io::Result<()>> {
        let mut w = self.0.borrow_mut();
        if w.flush_pend {
            w.fwaker = Some(cx.waker().clone());
            Poll::Pending
        } else {
            Poll::Ready(Ok(()))
        }
    }
    fn poll_shutdown(self: Pin<&mut Self>, cx: &mut Context<'_>) -> Poll<io::Result<()>> {
        let mut w = self.0.borrow_mut();
        if w.shutdown_mode == 0 || (w.shutdown_mode == 1 && w.shutdown_tok) {
            if !w.shutdown_done {
                w.shutdown_done = true;
                w.ev(json!({"ev":"Shutdown"}));
            }
            Poll::Ready(Ok(()))
        } else {
            w.swaker = Some(cx.waker().clone());
            Poll::Pending
        }
    }
}

// ---------------------------------------------------------------------------------------------
// independent client-side response parser (RFC 7230 3.3.3 from the client's point of view)
// ---------------------------------------------------------------------------------------------
#[derive(PartialEq)]
enum PState {
    Head,
    BodyLen(usize),
    BodyEof,
    ChunkSize,
    ChunkData(usize),
    ChunkCrlf,
    Trailer,
    Junk,
}
struct RespParser {
    methods: Vec<String>, // methods of the requests the client sent, in order
    buf: Vec<u8>,
    st: PState,
    k: usize,      // number of final responses started so far
    cur_i: usize,  // x-req of the response being read
    body_n: usize, // decoded body bytes of the current response
    body_ok: bool,
    junk: usize,
    open: bool,
}
impl RespParser {
    fn new(methods: Vec<String>) -> Self {
        RespParser { methods, buf: vec![], st: PState::Head, k: 0, cur_i: 0, body_n: 0, body_ok: true, junk: 0, open: false }
    }
    fn body_bytes(&mut self, data: &[u8]) {
        for (j, &b) in data.iter().enumerate() {
            if self.cur_i == 0 || b != resp_pat(self.cur_i, self.body_n + j) {
                self.body_ok = false;
            }
        }
        self.body_n += data.len();
    }
    fn end(&mut self, out: &mut Vec<Value>, how: &str) {
        out.push(json!({"ev":"RespEnd","k":self.k,"n":self.body_n,"ok":self.body_ok || self.cur_i == 0 && self.body_n == 0,"how":how}));
        self.open = false;
        self.st = PState::Head;
    }
    fn feed(&mut self, data: &[u8], out: &mut Vec<Value>) {
        self.buf.extend_from_slice(data);
        loop {
            match self.st {
                PState::Junk => {
                    self.junk += self.buf.len();
                    self.buf.clear();
                    return;
                }
                PState::Head => {
                    // skip nothing: a response must start right here
                    let Some(pos) = find(&self.buf, b"\r\n\r\n") else {
                        if self.buf.len() > 65536 || (!self.buf.is_empty() && !b"HTTP/1.".starts_with(&self.buf[..self.buf.len().min(7)])) {
                            out.push(json!({"ev":"Junk","n":self.buf.len(),"k":self.k,"head": String::from_utf8_lossy(&self.buf[..self.buf.len().min(24)])}));
                            self.st = PState::Junk;
                            continue;
                        }
                        return;
                    };
                    let head: Vec<u8> = self.buf.drain(..pos + 4).collect();
                    let text = String::from_utf8_lossy(&head[..pos]).into_owned();
                    let mut lines = text.split("\r\n");
                    let sl = lines.next().unwrap_or("");
                    let ver = if sl.starts_with("HTTP/1.1 ") { 11 } else if sl.starts_with("HTTP/1.0 ") { 10 } else { 0 };
                    let status: u16 = sl.get(9..12).and_then(|s| s.parse().ok()).unwrap_or(0);
                    if ver == 0 || status == 0 {
                        out.push(json!({"ev":"Junk","n":head.len(),"k":self.k,"head": sl.chars().take(24).collect::<String>()}));
                        self.st = PState::Junk;
                        continue;
                    }
                    let (mut cl, mut ncl, mut te, mut conn, mut date, mut xreq) = (-1i64, 0, String::new(), "-".to_string(), 0, 0usize);
                    let mut nte = 0;
                    for l in lines {
                        let Some((n, v)) = l.split_once(':') else { continue };
                        let (n, v) = (n.trim().to_ascii_lowercase(), v.trim());
                        match n.as_str() {
                            "content-length" => {
                                ncl += 1;
                                cl = v.parse().unwrap_or(-2);
                            }
                            "transfer-encoding" => {
                                nte += 1;
                                te = v.to_ascii_lowercase();
                            }
                            "connection" => conn = v.to_ascii_lowercase(),
                            "date" => date += 1,
                            "x-req" => xreq = v.parse().unwrap_or(0),
                            _ => {}
                        }
                    }
                    let interim = (100..200).contains(&status) && status != 101;
                    if interim {
                        out.push(json!({"ev":"Resp","k":self.k + 1,"interim":true,"status":status,"ver":ver,"len":"none","cl":0,"conn":conn,"i":xreq,"date":date,"ncl":ncl,"nte":nte}));
                        continue;
                    }
                    self.k += 1;
                    self.cur_i = xreq;
                    self.body_n = 0;
                    self.body_ok = true;
                    self.open = true;
                    let method = self.methods.get(self.k - 1).map(|s| s.as_str()).unwrap_or("GET");
                    let nobody = method == "HEAD" || status == 204 || status == 304 || status == 101;
                    let len = if te.contains("chunked") { "chunked" } else if cl >= 0 { "cl" } else if cl == -2 { "badcl" } else { "none" };
                    out.push(json!({"ev":"Resp","k":self.k,"interim":false,"status":status,"ver":ver,"len":len,"cl":cl.max(0),"conn":conn,"i":xreq,"date":date,"ncl":ncl,"nte":nte}));
                    if nobody {
                        self.end(out, "nobody");
                    } else if len == "chunked" {
                        self.st = PState::ChunkSize;
                    } else if cl >= 0 {
                        if cl == 0 {
                            self.end(out, "cl");
                        } else {
                            self.st = PState::BodyLen(cl as usize);
                        }
                    } else {
                        self.st = PState::BodyEof;
                    }
                }
                PState::BodyLen(rem) => {
                    if self.buf.is_empty() {
                        return;
                    }
                    let t = rem.min(self.buf.len());
                    let d: Vec<u8> = self.buf.drain(..t).collect();
                    self.body_bytes(&d);
                    if rem == t {
                        self.end(out, "cl");
                    } else {
                        self.st = PState::BodyLen(rem - t);
                    }
                }
                PState::BodyEof => {
                    if self.buf.is_empty() {
                        return;
                    }
                    let d: Vec<u8> = self.buf.drain(..).collect();
                    self.body_bytes(&d);
                    return;
                }
                PState::ChunkSize => {
                    let Some(pos) = find(&self.buf, b"\r\n") else {
                        if self.buf.len() > 64 {
                            out.push(json!({"ev":"Junk","n":self.buf.len(),"k":self.k,"head":"bad chunk size"}));
                            self.st = PState::Junk;
                            continue;
                        }
                        return;
                    };
                    let line: Vec<u8> = self.buf.drain(..pos + 2).collect();
                    let txt = String::from_utf8_lossy(&line[..pos]).into_owned();
                    match usize::from_str_radix(txt.split(';').next().unwrap_or("").trim(), 16) {
                        Ok(0) => self.st = PState::Trailer,
                        Ok(n) => self.st = PState::ChunkData(n),
                        Err(_) => {
                            out.push(json!({"ev":"Junk","n":line.len(),"k":self.k,"head":"bad chunk size"}));
                            self.st = PState::Junk;
                        }
                    }
                }
                PState::ChunkData(rem) => {
                    if self.buf.is_empty() {
                        return;
                    }
                    let t = rem.min(self.buf.len());
                    let d: Vec<u8> = self.buf.drain(..t).collect();
                    self.body_bytes(&d);
                    self.st = if rem == t { PState::ChunkCrlf } else { PState::ChunkData(rem - t) };
                }
                PState::ChunkCrlf => {
                    if self.buf.len() < 2 {
                        return;
                    }
                    if &self.buf[..2] != b"\r\n" {
                        out.push(json!({"ev":"Junk","n":self.buf.len(),"k":self.k,"head":"no CRLF after chunk"}));
                        self.st = PState::Junk;
                        continue;
                    }
                    self.buf.drain(..2);
                    self.st = PState::ChunkSize;
                }
                PState::Trailer => {
                    if self.buf.len() < 2 {
                        return;
                    }
                    if &self.buf[..2] != b"\r\n" {
                        out.push(json!({"ev":"Junk","n":self.buf.len(),"k":self.k,"head":"trailer"}));
                        self.st = PState::Junk;
                        continue;
                    }
                    self.buf.drain(..2);
                    self.end(out, "chunked");
                }
            }
        }
    }
    /// the connection is over: what is the state of the response stream?
    fn finish(&mut self, out: &mut Vec<Value>, fin: bool) {
        match self.st {
            PState::BodyEof => self.end(out, "eof"),
            PState::Head if self.buf.is_empty() => {}
            PState::Junk => {}
            _ => {
                // a response was cut: head incomplete or body shorter than framed
                out.push(json!({"ev":"RespCut","k":if self.open { self.k } else { self.k + 1 },"n":self.body_n,"inhead": self.st == PState::Head,"final":fin}));
                self.open = false;
            }
        }
    }
}
fn find(h: &[u8], n: &[u8]) -> Option<usize> {
    h.windows(n.len()).position(|w| w == n)
}

// ---------------------------------------------------------------------------------------------
// programs: handler, request-body consumer, response body
// ---------------------------------------------------------------------------------------------
struct GateFut {
    w: W,
    i: usize,
    body: bool,
}
impl Future for GateFut {
    type Output = ();
    fn poll(self: Pin<&mut Self>, cx: &mut Context<'_>) -> Poll<()> {
        let mut w = self.w.borrow_mut();
        let i = self.i;
        let g = if self.body { w.bgates.entry(i).or_default() } else { w.hgates.entry(i).or_default() };
        if g.tokens > 0 {
            g.tokens -= 1;
            w.progress += 1;
            Poll::Ready(())
        } else {
            g.waker = Some(cx.waker().clone());
            Poll::Pending
        }
    }
}

struct ProgStream {
    w: W,
    i: usize,
    chunks: Vec<usize>,
    pend: Vec<bool>,
    idx: usize,
    off: usize,
    end_err: bool,
    gate: Option<GateFut>,
}
impl ProgStream {
    fn next(&mut self, cx: &mut Context<'_>) -> Poll<Option<Result<Bytes, io::Error>>> {
        if self.idx >= self.chunks.len() {
            if self.end_err {
                self.end_err = false;
                self.w.borrow_mut().progress += 1;
                return Poll::Ready(Some(Err(io::Error::other("body program error"))));
            }
            return Poll::Ready(None);
        }
        if self.pend.get(self.idx).copied().unwrap_or(false) {
            let g = self.gate.get_or_insert_with(|| GateFut { w: self.w.clone(), i: self.i, body: true });
            match Pin::new(g).poll(cx) {
                Poll::Pending => return Poll::Pending,
                Poll::Ready(()) => {
                    self.gate = None;
                    self.pend[self.idx] = false;
                }
            }
        }
        let n = self.chunks[self.idx];
        let b: Vec<u8> = (0..n).map(|j| resp_pat(self.i, self.off + j)).collect();
        self.idx += 1;
        self.off += n;
        let mut w = self.w.borrow_mut();
        w.pulled += n;
        w.progress += 1;
        Poll::Ready(Some(Ok(Bytes::from(b))))
    }
}
impl Stream for ProgStream {
    type Item = Result<Bytes, io::Error>;
    fn poll_next(mut self: Pin<&mut Self>, cx: &mut Context<'_>) -> Poll<Option<Self::Item>> {
        self.next(cx)
    }
}
struct ProgBody {
    s: ProgStream,
    size: BodySize,
    _keep: Option<actix_http::Payload>, // a request payload kept alive for as long as the body lives
}
impl MessageBody for ProgBody {
    type Error = io::Error;
    fn size(&self) -> BodySize {
        self.size
    }
    fn poll_next(mut self: Pin<&mut Self>, cx: &mut Context<'_>) -> Poll<Option<Result<Bytes, io::Error>>> {
        self.s.next(cx)
    }
}

fn u(v: &Value, k: &str, d: u64) -> u64 {
    v.get(k).and_then(|x| x.as_u64()).unwrap_or(d)
}

async fn handler(w: W, progs: Rc<Value>, expect: Rc<Value>, mut req: Request) -> Result<Response<BoxBody>, Response<BoxBody>> {
    let path = req.path().to_owned();
    let i: usize = path.strip_prefix("/r").and_then(|s| s.split(|c: char| !c.is_ascii_digit()).next()).and_then(|s| s.parse().ok()).unwrap_or(0);
    {
        let mut hh: u64 = 0;
        for (n, v) in req.headers().iter() {
            let mut h: u32 = 2166136261;
            h = fnv31(n.as_str().as_bytes(), h);
            h = fnv31(b":", h);
            h = fnv31(v.as_bytes(), h);
            h = fnv31(b"\n", h);
            hh = (hh + (h & 0x3fff_ffff) as u64) & 0x3fff_ffff;
        }
        let ex = &expect[i.to_string()];
        let target = req.uri().path_and_query().map(|p| p.as_str().to_owned()).unwrap_or_default();
        let ver = if req.version() == actix_http::Version::HTTP_11 { 11 } else if req.version() == actix_http::Version::HTTP_10 { 10 } else { 0 };
        let mut wb = w.borrow_mut();
        wb.calls += 1;
        wb.handed_cur = 0;
        if !wb.quiet {
            let tok = ex.get("target").and_then(|t| t.as_str()).map(|t| t == target).unwrap_or(false);
            // header multiset: order across different names is not part of the API contract
            let hok = ex.get("hh").and_then(|h| h.as_u64()).map(|h| h == hh).unwrap_or(false);
            let nh = req.headers().len();
            wb.ev(json!({"ev":"Call","i":i,"m":req.method().as_str(),"ver":ver,"tok":tok,"hok":hok,"nh":nh}));
        } else {
            wb.progress += 1;
        }
    }
    let prog = progs.get(i.to_string()).cloned().unwrap_or_else(|| progs["default"].clone());
    for _ in 0..u(&prog, "pend", 0) {
        GateFut { w: w.clone(), i, body: false }.await;
    }
    // request body consumer
    let read = prog.get("read").and_then(|r| r.as_str()).unwrap_or("none").to_owned();
    let mut payload = Some(req.take_payload());
    let keep = prog.get("keep").and_then(|r| r.as_str()).unwrap_or("handler").to_owned();
    if read == "none" && keep == "drop" {
        payload = None;
    }
    // "step": the whole body, but every chunk only after one more handler token
    if read == "task" {
        // the body is consumed by a task of its own (its wake-ups are not the connection task's): one chunk per scheduling turn;
        // the handler only waits for that task to finish
        struct Shared {
            done: bool,
            waker: Option<std::task::Waker>,
        }
        struct DoneFut(Rc<RefCell<Shared>>);
        impl Future for DoneFut {
            type Output = ();
            fn poll(self: Pin<&mut Self>, cx: &mut Context<'_>) -> Poll<()> {
                let mut s = self.0.borrow_mut();
                if s.done {
                    Poll::Ready(())
                } else {
                    s.waker = Some(cx.waker().clone());
                    Poll::Pending
                }
            }
        }
        let shared = Rc::new(RefCell::new(Shared { done: false, waker: None }));
        let (sh2, w2) = (shared.clone(), w.clone());
        let mut pl = payload.take().unwrap();
        tokio::task::spawn_local(async move {
            let mut off = 0usize;
            loop {
                let item = std::future::poll_fn(|cx| Pin::new(&mut pl).poll_next(cx)).await;
                match item {
                    Some(Ok(b)) => {
                        let ok = b.iter().enumerate().all(|(j, &x)| x == req_pat(i, off + j));
                        off += b.len();
                        let mut wb = w2.borrow_mut();
                        wb.handed += b.len();
                        wb.handed_cur += b.len();
                        if !wb.quiet {
                            wb.ev(json!({"ev":"BodyIn","i":i,"n":b.len(),"ok":ok}));
                        } else {
                            wb.progress += 1;
                        }
                    }
                    Some(Err(_)) => {
                        w2.borrow_mut().ev(json!({"ev":"BodyEnd","i":i,"how":"incomplete","n":off}));
                        break;
                    }
                    None => {
                        w2.borrow_mut().ev(json!({"ev":"BodyEnd","i":i,"how":"eof","n":off}));
                        break;
                    }
                }
                tokio::task::yield_now().await;
            }
            let mut s = sh2.borrow_mut();
            s.done = true;
            if let Some(wk) = s.waker.take() {
                wk.wake();
            }
        });
        DoneFut(shared).await;
    }
    let limit: usize = if read == "all" || read == "step" { usize::MAX } else if let Some(k) = read.strip_prefix("n:") { k.parse().unwrap_or(0) } else { 0 };
    let mut got = 0usize;
    let mut off = 0usize;
    let declared_len: u64 = req.headers().get("content-length").and_then(|v| v.to_str().ok()).and_then(|v| v.parse().ok()).unwrap_or(u64::MAX);
    while got < limit {
        if read == "step" && (off as u64) < declared_len {
            GateFut { w: w.clone(), i, body: false }.await;
        }
        let Some(pl) = payload.as_mut() else { break };
        let item = std::future::poll_fn(|cx| Pin::new(&mut *pl).poll_next(cx)).await;
        match item {
            Some(Ok(b)) => {
                let ok = b.iter().enumerate().all(|(j, &x)| x == req_pat(i, off + j));
                off += b.len();
                got += 1;
                let mut wb = w.borrow_mut();
                wb.handed += b.len();
                wb.handed_cur += b.len();
                if !wb.quiet {
                    wb.ev(json!({"ev":"BodyIn","i":i,"n":b.len(),"ok":ok}));
                } else {
                    wb.progress += 1;
                }
            }
            Some(Err(e)) => {
                let how = match e {
                    actix_http::error::PayloadError::Incomplete(_) => "incomplete",
                    actix_http::error::PayloadError::EncodingCorrupted => "corrupt",
                    actix_http::error::PayloadError::Overflow => "overflow",
                    _ => "other",
                };
                w.borrow_mut().ev(json!({"ev":"BodyEnd","i":i,"how":how,"n":off}));
                break;
            }
            None => {
                w.borrow_mut().ev(json!({"ev":"BodyEnd","i":i,"how":"eof","n":off}));
                break;
            }
        }
    }
    if keep == "drop" {
        payload = None;
    }
    for _ in 0..u(&prog, "pend2", 0) {
        GateFut { w: w.clone(), i, body: false }.await;
    }
    // response
    let r = &prog["resp"];
    let status = StatusCode::from_u16(u(r, "status", 200) as u16).unwrap();
    let mut b = Response::build(status);
    b.insert_header((HeaderName::from_static("x-req"), HeaderValue::from(i as u64)));
    match r.get("conn").and_then(|c| c.as_str()).unwrap_or("-") {
        "close" => {
            b.force_close();
        }
        "keep-alive" => {
            b.keep_alive();
        }
        _ => {}
    }
    if let Some(hs) = r.get("hdrs").and_then(|h| h.as_array()) {
        for h in hs {
            b.insert_header((HeaderName::from_bytes(h[0].as_str().unwrap().as_bytes()).unwrap(), HeaderValue::from_str(h[1].as_str().unwrap()).unwrap()));
        }
    }
    if let Some(n) = r.get("no_chunking").and_then(|n| n.as_u64()) {
        b.no_chunking(n);
    }
    let body = &r["body"];
    let kind = body.get("k").and_then(|k| k.as_str()).unwrap_or("empty");
    let chunks: Vec<usize> = body.get("chunks").and_then(|c| c.as_array()).map(|a| a.iter().map(|x| x.as_u64().unwrap() as usize).collect()).unwrap_or_default();
    let pend: Vec<bool> = body.get("pend").and_then(|c| c.as_array()).map(|a| a.iter().map(|x| x.as_u64().unwrap_or(0) > 0).collect()).unwrap_or_default();
    let total: usize = chunks.iter().sum();
    let declared = u(body, "declared", total as u64);
    let end_err = body.get("end").and_then(|e| e.as_str()) == Some("err");
    let mk = |w: &W| ProgStream { w: w.clone(), i, chunks: chunks.clone(), pend: pend.clone(), idx: 0, off: 0, end_err, gate: None };
    let keep_pl = if keep == "body" { payload.take() } else { None };
    let res: Response<BoxBody> = match kind {
        "none" => b.body(actix_http::body::None::new()).map_into_boxed_body(),
        "empty" => b.finish().map_into_boxed_body(),
        "bytes" => {
            let v: Vec<u8> = (0..total).map(|j| resp_pat(i, j)).collect();
            w.borrow_mut().pulled += total;
            b.body(Bytes::from(v)).map_into_boxed_body()
        }
        "sized-stream" => b.body(SizedStream::new(declared, mk(&w))).map_into_boxed_body(),
        "body-stream" => b.body(BodyStream::new(mk(&w))).map_into_boxed_body(),
        "custom-sized" => b.body(ProgBody { s: mk(&w), size: BodySize::Sized(declared), _keep: keep_pl }).map_into_boxed_body(),
        _ => b.body(ProgBody { s: mk(&w), size: BodySize::Stream, _keep: keep_pl }).map_into_boxed_body(),
    };
    drop(payload);
    w.borrow_mut().progress += 1;
    if prog.get("svc_err").and_then(|e| e.as_bool()).unwrap_or(false) {
        Err(res)
    } else {
        Ok(res)
    }
}

// ---------------------------------------------------------------------------------------------
// executor
// ---------------------------------------------------------------------------------------------
struct CountWaker(AtomicUsize);
impl Wake for CountWaker {
    fn wake(self: Arc<Self>) {
        self.0.fetch_add(1, Ordering::SeqCst);
    }
    fn wake_by_ref(self: &Arc<Self>) {
        self.0.fetch_add(1, Ordering::SeqCst);
    }
}

struct SigFut(W);
impl Future for SigFut {
    type Output = ();
    fn poll(self: Pin<&mut Self>, cx: &mut Context<'_>) -> Poll<()> {
        let mut w = self.0.borrow_mut();
        if w.sig_fired {
            Poll::Ready(())
        } else {
            w.sig = Some(cx.waker().clone());
            Poll::Pending
        }
    }
}

const POLL_LIMIT: usize = 3000;

fn mem_event(w: &mut World) {
    let (taken, avail, accepted, budget, handed, handed_cur, pulled, calls) = (w.taken, w.avail, w.accepted, w.budget, w.handed, w.handed_cur, w.pulled, w.calls);
    let live = crate::alloc::live();
    let peak = crate::alloc::peak();
    let harness = w.events.capacity() * 64 + w.events.len() * 256;
    w.note(json!({"ev":"Mem","taken":taken,"avail":avail,"accepted":accepted,"budget":budget,"handed":handed,"handed_cur":handed_cur,
                  "pulled":pulled,"calls":calls,"live":live,"peak":peak,"harness":harness}));
}

pub fn run_case(case: &Value) -> Vec<Value> {
    let rt = tokio::runtime::Builder::new_current_thread().enable_time().start_paused(true).build().unwrap();
    let local = tokio::task::LocalSet::new();
    let case = case.clone();
    local.block_on(&rt, async move {
        let cfg = &case["cfg"];
        let methods: Vec<String> = case["methods"].as_array().map(|a| a.iter().map(|m| m.as_str().unwrap().to_owned()).collect()).unwrap_or_default();
        let sock_cfg = &case["sock"];
        let world: W = Rc::new(RefCell::new(World {
            t0: tokio::time::Instant::now(),
            quiet: cfg.get("quiet").and_then(|q| q.as_bool()).unwrap_or(false),
            events: vec![],
            progress: 0,
            wire: Wire::parse(&case["wire"]),
            avail: 0,
            taken: 0,
            eof: false,
            rst: false,
            eof_seen: false,
            rwaker: None,
            budget: sock_cfg.get("budget").and_then(|b| b.as_i64()).unwrap_or(-1),
            accepted: 0,
            wwaker: None,
            wpend: false,
            flush_pend: sock_cfg.get("flush").and_then(|f| f.as_str()) == Some("pend"),
            fwaker: None,
            shutdown_mode: match sock_cfg.get("shutdown").and_then(|f| f.as_str()) {
                Some("pend") => 1,
                Some("never") => 2,
                _ => 0,
            },
            shutdown_tok: false,
            swaker: None,
            shutdown_done: false,
            zero_write: false,
            parser: RespParser::new(methods),
            hgates: HashMap::new(),
            bgates: HashMap::new(),
            calls: 0,
            handed: 0,
            handed_cur: 0,
            pulled: 0,
            sig: None,
            sig_fired: false,
        }));
        let probe = cfg.get("probe").and_then(|q| q.as_bool()).unwrap_or(false);
        let progs = Rc::new(case["progs"].clone());
        let expect = Rc::new(case["expect"].clone());
        let ka = cfg.get("ka_ms").and_then(|k| k.as_i64()).unwrap_or(5000);
        let mut b = HttpService::build()
            .keep_alive(if ka > 0 { KeepAlive::Timeout(Duration::from_millis(ka as u64)) } else if ka == 0 { KeepAlive::Disabled } else { KeepAlive::Os })
            .client_request_timeout(Duration::from_millis(u(cfg, "head_ms", 5000)))
            .client_disconnect_timeout(Duration::from_millis(u(cfg, "disc_ms", 0)))
            .h1_allow_half_closed(cfg.get("half_closed").and_then(|h| h.as_bool()).unwrap_or(true));
        if u(cfg, "wbuf", 0) > 0 {
            b = b.h1_write_buffer_size(u(cfg, "wbuf", 0) as usize);
        }
        if cfg.get("graceful").and_then(|g| g.as_bool()).unwrap_or(false) {
            let ws = world.clone();
            b = b.graceful_shutdown_signal(move || SigFut(ws.clone()));
        }
        let (w2, p2, e2) = (world.clone(), progs.clone(), expect.clone());
        let w3 = world.clone();
        // upgrade service: answers 101 through the Framed it is handed (left-over write buffer included) and ends
        let upg = fn_service(move |(req, mut framed): (Request, Framed<Sock, Codec>)| {
            let w = w3.clone();
            async move {
                let i: usize = req.path().strip_prefix("/r").and_then(|s| s.parse().ok()).unwrap_or(0);
                w.borrow_mut().ev(json!({"ev":"Call","i":i,"m":req.method().as_str(),"ver":11,"tok":true,"hok":true,"nh":req.headers().len(),"upgrade":true}));
                let mut res = Response::build(StatusCode::SWITCHING_PROTOCOLS);
                res.insert_header((HeaderName::from_static("x-req"), HeaderValue::from(i as u64)));
                res.upgrade("websocket");
                let res = res.finish().drop_body();
                Pin::new(&mut framed).write(Message::Item((res, BodySize::None))).map_err(|_| actix_http::Error::from(actix_http::error::PayloadError::Incomplete(None)))?;
                std::future::poll_fn(|cx| Pin::new(&mut framed).flush(cx)).await.map_err(|_| actix_http::Error::from(actix_http::error::PayloadError::Incomplete(None)))?;
                Ok::<(), actix_http::Error>(())
            }
        });
        let use_upgrade = cfg.get("upgrade").and_then(|g| g.as_bool()).unwrap_or(false);
        let sock = Sock(world.clone());
        let main_svc = fn_service(move |req: Request| handler(w2.clone(), p2.clone(), e2.clone(), req));
        let mut fut: Option<Pin<Box<dyn Future<Output = Result<(), actix_http::error::DispatchError>>>>> = if use_upgrade {
            let factory = b.upgrade(upg).h1(main_svc);
            let svc = factory.new_service(()).await.expect("service");
            Some(Box::pin(svc.call((sock, None))))
        } else {
            let factory = b.h1(main_svc);
            let svc = factory.new_service(()).await.expect("service");
            Some(Box::pin(svc.call((sock, None))))
        };
        let cw = Arc::new(CountWaker(AtomicUsize::new(1)));
        let waker = Waker::from(cw.clone());
        let mut done = false;
        let mut polls_total = 0usize;
        // once a busy self-wake loop has been reported, later settles give up much sooner: the loop is
        // already in the trace and re-running it for every 100 ms slice only burns time
        let mut poll_limit = POLL_LIMIT;

        macro_rules! settle {
            () => {{
                let mut polls = 0usize;
                loop {
                    tokio::task::yield_now().await;
                    if done {
                        break;
                    }
                    if cw.0.load(Ordering::SeqCst) == 0 {
                        // other tasks of the connection's runtime (a body consumer running on its own) get their turns; they may
                        // wake the connection task
                        for _ in 0..32 {
                            tokio::task::yield_now().await;
                            if cw.0.load(Ordering::SeqCst) != 0 {
                                break;
                            }
                        }
                    }
                    if cw.0.swap(0, Ordering::SeqCst) == 0 {
                        break;
                    }
                    polls += 1;
                    polls_total += 1;
                    if polls > poll_limit {
                        poll_limit = 40;
                        // the task keeps waking itself without any observable progress: report and
                        // treat it as quiescent until the next environment step
                        world.borrow_mut().ev(json!({"ev":"Spin","polls":polls}));
                        cw.0.store(1, Ordering::SeqCst);
                        break;
                    }
                    let mut cx = Context::from_waker(&waker);
                    let r = crate::util::guarded(|| fut.as_mut().unwrap().as_mut().poll(&mut cx));
                    match r {
                        Err(p) => {
                            world.borrow_mut().ev(json!({"ev":"Panic","msg":p}));
                            done = true;
                            fut = None;
                        }
                        Ok(Poll::Ready(res)) => {
                            done = true;
                            fut = None; // drops the dispatcher and the socket
                            let mut out = vec![];
                            let mut wb = world.borrow_mut();
                            wb.parser.finish(&mut out, true);
                            for e in out {
                                wb.ev(e);
                            }
                            let (r, kind) = match &res {
                                Ok(()) => ("ok", "".to_string()),
                                Err(e) => ("err", format!("{e:?}").split(|c: char| !c.is_alphanumeric()).next().unwrap_or("").to_string()),
                            };
                            wb.ev(json!({"ev":"Done","res":r,"kind":kind}));
                        }
                        Ok(Poll::Pending) => {}
                    }
                }
                polls
            }};
        }

        let _ = settle!();
        if cfg.get("mem").and_then(|q| q.as_bool()).unwrap_or(false) {
            mem_event(&mut world.borrow_mut());
        }
        let steps = case["steps"].as_array().cloned().unwrap_or_default();
        for st in steps.iter() {
            if done {
                break;
            }
            let (k, v) = st.as_object().unwrap().iter().next().unwrap();
            {
                let mut w = world.borrow_mut();
                match k.as_str() {
                    "seg" => {
                        let n = (v.as_u64().unwrap() as usize).min(w.wire.total - w.taken - w.avail);
                        w.avail += n;
                        w.note(json!({"ev":"Feed","n":n}));
                        if let Some(wk) = w.rwaker.take() {
                            wk.wake();
                        }
                    }
                    "eof" => {
                        w.eof = true;
                        w.note(json!({"ev":"Eof"}));
                        if let Some(wk) = w.rwaker.take() {
                            wk.wake();
                        }
                    }
                    "rst" => {
                        w.rst = true;
                        w.note(json!({"ev":"Rst"}));
                        if let Some(wk) = w.rwaker.take() {
                            wk.wake();
                        }
                    }
                    "w" => {
                        let kk = v.as_i64().unwrap();
                        w.budget = if kk < 0 || w.budget < 0 { -1 } else { w.budget + kk };
                        w.note(json!({"ev":"Writable","k":kk}));
                        if let Some(wk) = w.wwaker.take() {
                            wk.wake();
                        }
                    }
                    "zero" => {
                        w.zero_write = true;
                        if let Some(wk) = w.wwaker.take() {
                            wk.wake();
                        }
                    }
                    "flushok" => {
                        w.flush_pend = false;
                        if let Some(wk) = w.fwaker.take() {
                            wk.wake();
                        }
                    }
                    "shutok" => {
                        w.shutdown_tok = true;
                        if let Some(wk) = w.swaker.take() {
                            wk.wake();
                        }
                    }
                    "h" | "b" => {
                        let i = v.as_u64().unwrap() as usize;
                        let g = if k == "h" { w.hgates.entry(i).or_default() } else { w.bgates.entry(i).or_default() };
                        g.tokens += 1;
                        if let Some(wk) = g.waker.take() {
                            wk.wake();
                        }
                        w.note(json!({"ev": if k == "h" { "HTok" } else { "BTok" }, "i": i}));
                    }
                    "sig" => {
                        w.sig_fired = true;
                        w.note(json!({"ev":"Signal"}));
                        if let Some(wk) = w.sig.take() {
                            wk.wake();
                        }
                    }
                    "tick" => {}
                    other => panic!("unknown step {other}"),
                }
            }
            if k == "tick" {
                let ms = v.as_u64().unwrap();
                // advance in slices so that the 500 ms date service and every deadline is observed in order
                let mut left = ms;
                while left > 0 && !done {
                    let d = left.min(100);
                    tokio::time::advance(Duration::from_millis(d)).await;
                    left -= d;
                    let _ = settle!();
                }
                world.borrow_mut().note(json!({"ev":"Tick","ms":ms}));
            }
            let polls = settle!();
            if !done {
                let mut progress = false;
                if probe {
                    // spurious-wake probe: a task that correctly returned Pending has nothing to do
                    let before = world.borrow().progress;
                    cw.0.fetch_add(1, Ordering::SeqCst);
                    let _ = settle!();
                    progress = world.borrow().progress != before;
                }
                let mem = cfg.get("mem").and_then(|q| q.as_bool()).unwrap_or(false);
                let mut w = world.borrow_mut();
                if progress {
                    w.note(json!({"ev":"Stall","polls":polls}));
                }
                if mem {
                    mem_event(&mut w);
                }
            }
        }
        if !done {
            let mut out = vec![];
            let mut w = world.borrow_mut();
            w.parser.finish(&mut out, false);
            for e in out {
                w.note(e);
            }
            w.note(json!({"ev":"End","done":false,"polls":polls_total}));
        } else {
            world.borrow_mut().note(json!({"ev":"End","done":true,"polls":polls_total}));
        }
        drop(fut);
        let ev = std::mem::take(&mut world.borrow_mut().events);
        ev
    })
}

pub fn replay(cases: &[Value], out: &mut TraceOut) {
    // every case runs on its own thread under a wall-clock watchdog: a poll of the connection task that never
    // returns (an endless loop inside the dispatcher) becomes a "Hang" event instead of a harness time-out
    const HANG_SECS: u64 = 120;
    const MAX_HANGS: usize = 3;
    let mut hangs = 0usize;
    for (i, case) in cases.iter().enumerate() {
        out.emit(json!({"ev":"Reset","run":i+1,"cfg":case["cfg"],"gt":case["gt"],"pf":case["pf"],"sock":case["sock"],"rej":case["rej"],"epi":case["epi"],"total":case["total"]}));
        if hangs >= MAX_HANGS {
            out.emit(json!({"ev":"Skipped","t":0}));
            continue;
        }
        crate::alloc::reset_peak();
        let (tx, rx) = std::sync::mpsc::channel();
        let c = case.clone();
        std::thread::Builder::new()
            .stack_size(16 << 20)
            .spawn(move || {
                let evs = match crate::util::guarded(|| run_case(&c)) {
                    Ok(e) => e,
                    Err(p) => vec![json!({"ev":"Panic","msg":p,"t":0})],
                };
                let _ = tx.send(evs);
            })
            .expect("spawn case thread");
        match rx.recv_timeout(std::time::Duration::from_secs(HANG_SECS)) {
            Ok(evs) => {
                for e in evs {
                    out.emit(e);
                }
            }
            Err(_) => {
                // the thread is left behind (it cannot be cancelled); it ends with the process
                hangs += 1;
                out.emit(json!({"ev":"Hang","t":0,"wall_s":HANG_SECS}));
            }
        }
    }
}
