pub mod headermap;
pub mod payload;
pub mod h1;
