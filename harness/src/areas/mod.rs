pub mod headermap;
pub mod payload;
pub mod h1;
pub mod ws;
pub mod multipart;
pub mod router;
pub mod files;
pub mod routing;
