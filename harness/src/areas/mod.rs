pub mod headermap;
