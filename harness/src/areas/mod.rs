pub mod headermap;
pub mod payload;
