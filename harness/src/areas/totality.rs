//! C19: structured mutation plans (spec/totality/Totality.tla) concretised on valid messages of
//! every parser entry point that has no state-machine specification of its own; each call is
//! wrapped in catch_unwind and a step budget.  Built with overflow checks and debug assertions.
use crate::util::{guarded, TraceOut};
use actix_codec::Decoder;
use actix_http::{h1, ws};
use actix_web::http::header::{self, Header};
use bytes::BytesMut;
use serde_json::{json, Value};

fn templates(entry: &str) -> Vec<Vec<u8>> {
    let v: Vec<&[u8]> = match entry {
        "h1-request" => vec![
            b"GET /a/b?x=1 HTTP/1.1\r\nhost: t\r\ncontent-length: 5\r\n\r\nhello",
            b"POST /u HTTP/1.1\r\nhost: t\r\ntransfer-encoding: chunked\r\n\r\n5\r\nhello\r\n0\r\n\r\n",
            b"PUT /%41%2F?q=%zz HTTP/1.0\r\nconnection: keep-alive\r\nexpect: 100-continue\r\ncontent-length: 0\r\n\r\n",
        ],
        "ws-frame" => vec![b"\x81\x85\x37\xfa\x21\x3d\x7f\x9f\x4d\x51\x58", b"\x88\x82\x01\x02\x03\x04\x02\xea", b"\x82\x7e\x00\x04abcd\x89\x00"],
        "multipart" => vec![
            b"--B\r\ncontent-disposition: form-data; name=\"a\"\r\n\r\nhello\r\n--B--\r\n",
            b"--B\r\ncontent-disposition: form-data; name=\"f\"; filename=\"x.txt\"\r\ncontent-type: text/plain\r\ncontent-length: 3\r\n\r\nabc\r\n--B\r\ncontent-disposition: form-data; name=\"g\"\r\n\r\n\r\n--B--\r\n",
            b"preamble\r\n--B\r\ncontent-disposition: form-data; name=a\r\n\r\n--Bx\r\n--B--",
        ],
        "query" => vec![b"a=1&b=x%20y&c[]=1", b"id=18446744073709551615&flag=true", b"a=%ff%fe&a=2&&=="],
        "path" => vec![b"/user/42/post/7", b"/user/%34%32/post/-1", b"/user/4294967296/post/x%2Fy"],
        "content-disposition" => vec![b"form-data; name=\"a\"; filename=\"b.txt\"", b"attachment; filename*=UTF-8''%e2%82%ac%20rates", b"inline; x=\"a\\\"b\"; y=z"],
        "range" => vec![b"bytes=0-499", b"bytes=-500,1000-", b"items=1-2, 5-"],
        "entity-tag" => vec![b"\"xyzzy\"", b"W/\"xyzzy\", \"r2d2xxxx\"", b"*"],
        "accept" => vec![b"text/html, application/xhtml+xml;q=0.9, */*;q=0.8", b"gzip;q=1.0, identity; q=0.5, *;q=0", b"en-US, en;q=0.5"],
        "forwarded" => vec![b"for=192.0.2.60;proto=http;by=203.0.113.43", b"for=\"[2001:db8:cafe::17]:4711\", for=unknown", b"host=example.com ; proto=https;;"],
        "awc-response" => vec![
            b"HTTP/1.1 200 OK\r\ncontent-length: 5\r\n\r\nhello",
            b"HTTP/1.1 200 OK\r\ntransfer-encoding: chunked\r\n\r\n5\r\nhello\r\n0\r\n\r\n",
            b"HTTP/1.0 304 Not Modified\r\ncontent-length: 4\r\nconnection: close\r\n\r\n",
        ],
        "cookie" => vec![b"a=1; b=2", b"sid=\"abc\"; Path=/; HttpOnly", b"=; ;;a"],
        "content-type" => vec![b"text/html; charset=utf-8", b"multipart/form-data; boundary=----x", b"application/json;;"],
        "http-date" => vec![b"Sun, 06 Nov 1994 08:49:37 GMT", b"Sunday, 06-Nov-94 08:49:37 GMT", b"Sun Nov  6 08:49:37 1994"],
        "quality" => vec![b"gzip;q=0.001", b"*;q=1.000", b"br;q=1.0001"],
        _ => vec![b"x"],
    };
    v.into_iter().map(|x| x.to_vec()).collect()
}

fn positions(data: &[u8], pos: &str) -> usize {
    let n = data.len();
    let find = |set: &[u8]| data.iter().position(|b| set.contains(b));
    match pos {
        "start" => 0,
        "second" => 1.min(n.saturating_sub(1)),
        "middle" => n / 2,
        "before-last" => n.saturating_sub(2),
        "last" => n.saturating_sub(1),
        "length" => {
            // first run of ASCII digits that looks like a length / number field
            let mut i = 0;
            while i + 1 < n {
                if data[i].is_ascii_digit() && (i == 0 || !data[i - 1].is_ascii_alphanumeric()) {
                    return i;
                }
                i += 1;
            }
            n / 3
        }
        _ => find(b";,=&/:\r-").unwrap_or(n / 2),
    }
}

fn mutate(tpl: &[u8], op: &str, pos: &str, val: &str) -> Vec<u8> {
    let mut d = tpl.to_vec();
    let p = positions(&d, pos).min(d.len().saturating_sub(1));
    if d.is_empty() {
        return d;
    }
    match op {
        "none" => {}
        "flip" => d[p] ^= 0x20,
        "high-bit" => d[p] |= 0x80,
        "nul" => d[p] = 0,
        "truncate" => d.truncate(p),
        "delete" => {
            d.remove(p);
        }
        "dup-field" => {
            // duplicate from p to the next delimiter
            let end = d[p..].iter().position(|b| b"\r;,&".contains(b)).map(|e| p + e + 1).unwrap_or(d.len());
            let part = d[p..end].to_vec();
            let mut out = d[..end].to_vec();
            out.extend_from_slice(&part);
            out.extend_from_slice(&d[end..]);
            d = out;
        }
        "oversize" => {
            let filler = vec![d[p]; 70000];
            let mut out = d[..p].to_vec();
            out.extend_from_slice(&filler);
            out.extend_from_slice(&d[p..]);
            d = out;
        }
        "set-length" => {
            // replace the digit run at p by the extreme value
            let mut e = p;
            while e < d.len() && d[e].is_ascii_digit() {
                e += 1;
            }
            let mut out = d[..p].to_vec();
            out.extend_from_slice(val.as_bytes());
            out.extend_from_slice(&d[e..]);
            d = out;
        }
        "splice" => {
            let other = tpl.iter().rev().cloned().collect::<Vec<u8>>();
            let mut out = d[..p].to_vec();
            out.extend_from_slice(&other[..other.len().min(16)]);
            out.extend_from_slice(&d[p..]);
            d = out;
        }
        _ => {}
    }
    d
}

fn hv(data: &[u8]) -> Option<actix_web::http::header::HeaderValue> {
    actix_web::http::header::HeaderValue::from_bytes(data).ok()
}

#[derive(serde::Deserialize)]
#[allow(dead_code)]
struct Q {
    a: Option<String>,
    id: Option<u64>,
    flag: Option<bool>,
}

/// runs one entry point on `data` delivered whole and in fragments; Ok(true) = returned a value, Ok(false) = returned an error
fn run_entry(entry: &str, data: &[u8]) -> bool {
    match entry {
        "h1-request" => {
            let mut ok = true;
            for step in [data.len().max(1), 1, 7] {
                let mut codec = h1::Codec::default();
                let mut buf = BytesMut::new();
                for c in data.chunks(step) {
                    buf.extend_from_slice(c);
                    let mut guard = 0;
                    loop {
                        guard += 1;
                        if guard > 100_000 {
                            panic!("unbounded loop in h1 decode");
                        }
                        match codec.decode(&mut buf) {
                            Ok(Some(_)) => continue,
                            Ok(None) => break,
                            Err(_) => {
                                ok = false;
                                buf.clear();
                                break;
                            }
                        }
                    }
                }
            }
            ok
        }
        "awc-response" => {
            let mut ok = true;
            for step in [data.len().max(1), 1, 5] {
                let mut codec = h1::ClientCodec::default();
                let mut buf = BytesMut::new();
                let mut pl: Option<h1::ClientPayloadCodec> = None;
                let mut done = false;
                for c in data.chunks(step) {
                    if done {
                        break;
                    }
                    buf.extend_from_slice(c);
                    let mut guard = 0;
                    loop {
                        guard += 1;
                        if guard > 100_000 {
                            panic!("unbounded loop in client decode");
                        }
                        if let Some(p) = pl.as_mut() {
                            match p.decode(&mut buf) {
                                Ok(Some(Some(_))) => continue,
                                Ok(Some(None)) => {
                                    done = true; // end of body: the payload codec must not be asked again
                                    break;
                                }
                                Ok(None) => break,
                                Err(_) => {
                                    ok = false;
                                    buf.clear();
                                    break;
                                }
                            }
                        } else {
                            match codec.decode(&mut buf) {
                                Ok(Some(_)) => {
                                    if codec.message_type() != h1::MessageType::None {
                                        pl = Some(std::mem::take(&mut codec).into_payload_codec());
                                    }
                                    continue;
                                }
                                Ok(None) => break,
                                Err(_) => {
                                    ok = false;
                                    buf.clear();
                                    break;
                                }
                            }
                        }
                    }
                }
            }
            ok
        }
        "ws-frame" => {
            let mut ok = true;
            for server in [true, false] {
                for step in [data.len().max(1), 1, 3] {
                    let mut codec = if server { ws::Codec::new().max_size(4096) } else { ws::Codec::new().max_size(4096).client_mode() };
                    let mut buf = BytesMut::new();
                    'outer: for c in data.chunks(step) {
                        buf.extend_from_slice(c);
                        let mut guard = 0;
                        loop {
                            guard += 1;
                            if guard > 100_000 {
                                panic!("unbounded loop in ws decode");
                            }
                            match codec.decode(&mut buf) {
                                Ok(Some(_)) => continue,
                                Ok(None) => break,
                                Err(_) => {
                                    ok = false;
                                    break 'outer;
                                }
                            }
                        }
                    }
                }
            }
            ok
        }
        "multipart" => {
            // through the multipart area's consumer with a poll budget (a hang is reported there as Stall -> here as panic)
            let body: String = data.iter().map(|&b| b as char).collect();
            let mut res = true;
            for segs in [vec![data.len().max(1)], vec![1; data.len().max(1)], vec![5; data.len() / 5 + 1]] {
                let case = json!({"boundary":"B","body":body,"fields":[],"segs":segs,"complete":false,"lie":false});
                let mut sink = crate::areas::multipart::collect_events(&case);
                if sink.iter().any(|e| e["ev"] == "Stall") {
                    panic!("multipart parser hangs");
                }
                if sink.drain(..).any(|e| e["ev"] == "Err") {
                    res = false;
                }
            }
            res
        }
        "query" => {
            let s = String::from_utf8_lossy(data).into_owned();
            let a = actix_web::web::Query::<Q>::from_query(&s).is_ok();
            let b = actix_web::web::Query::<std::collections::HashMap<String, String>>::from_query(&s).is_ok();
            let c = actix_web::web::Query::<Vec<(String, String)>>::from_query(&s).is_ok();
            a || b || c
        }
        "path" => {
            let s = String::from_utf8_lossy(data).into_owned();
            let rdef = actix_router::ResourceDef::new("/user/{id}/post/{pid}");
            let mut ok = false;
            if let Ok(uri) = s.parse::<http::Uri>() {
                let mut path = actix_router::Path::new(actix_router::Url::new(uri));
                if rdef.capture_match_info(&mut path) {
                    let de = actix_router::PathDeserializer::new(&path);
                    ok = <(u32, String) as serde::Deserialize>::deserialize(de).is_ok();
                    let de = actix_router::PathDeserializer::new(&path);
                    let _ = <(u64, i8) as serde::Deserialize>::deserialize(de);
                    let _ = path.get("id").map(|x| x.len());
                    let _ = path.iter().count();
                }
            }
            ok
        }
        "content-disposition" => match hv(data) {
            Some(v) => header::ContentDisposition::from_raw(&v).map(|cd| cd.to_string().len() > 0).unwrap_or(false),
            None => false,
        },
        "range" | "entity-tag" | "accept" | "content-type" | "http-date" | "quality" | "cookie" | "forwarded" => {
            let Some(v) = hv(data) else { return false };
            let name = match entry {
                "range" => "range",
                "entity-tag" => "if-none-match",
                "accept" => "accept",
                "content-type" => "content-type",
                "http-date" => "if-modified-since",
                "quality" => "accept-encoding",
                "cookie" => "cookie",
                _ => "forwarded",
            };
            let mut ok = false;
            for n in [name, "if-match", "etag", "if-range", "accept-language", "accept-charset", "accept-encoding", "content-range", "cache-control",
                      "content-language", "allow", "date", "expires", "last-modified", "if-unmodified-since", "content-length", "x-forwarded-for", "x-forwarded-host", "x-forwarded-proto", "host"] {
                let req = actix_web::test::TestRequest::default().insert_header((n, v.clone())).to_http_request();
                macro_rules! p {
                    ($t:ty) => {
                        ok |= <$t as Header>::parse(&req).map(|h| h.to_string().len() > 0).unwrap_or(false);
                    };
                }
                p!(header::Range);
                p!(header::IfNoneMatch);
                p!(header::IfMatch);
                p!(header::ETag);
                p!(header::IfRange);
                p!(header::Accept);
                p!(header::AcceptLanguage);
                p!(header::AcceptCharset);
                p!(header::AcceptEncoding);
                p!(header::ContentRange);
                p!(header::CacheControl);
                p!(header::ContentLanguage);
                p!(header::Allow);
                p!(header::ContentType);
                p!(header::Date);
                p!(header::Expires);
                p!(header::LastModified);
                p!(header::IfModifiedSince);
                p!(header::IfUnmodifiedSince);
                // header::ContentLength is not parsed here: its debug_assert on a leading '+' is unreachable for a peer (the h1 decoder
                // and the h2 crate both refuse such a Content-Length before any typed parsing)
                p!(header::ContentDisposition);
                {
                    let ci = req.connection_info();
                    ok |= ci.host().len() + ci.scheme().len() + ci.realip_remote_addr().map(|s| s.len()).unwrap_or(0) > 0;
                }
                let _ = req.cookies().map(|c| c.len());
                { use actix_web::HttpMessage as _; let _ = req.content_type().len(); let _ = req.mime_type(); let _ = req.encoding(); }
            }
            ok
        }
        _ => true,
    }
}

pub fn replay(cases: &[Value], out: &mut TraceOut) {
    // codecs create a ServiceConfig (date service task): run inside an actix system
    let sys = actix_rt::System::new();
    sys.block_on(async { replay_inner(cases, out) });
}

fn replay_inner(cases: &[Value], out: &mut TraceOut) {
    for (i, plan) in cases.iter().enumerate() {
        out.reset(i + 1);
        let entry = plan["entry"].as_str().unwrap();
        let tpls = templates(entry);
        let t = (plan["template"].as_u64().unwrap() as usize - 1) % tpls.len();
        let data = if let Some(raw) = plan.get("raw_hex").and_then(|r| r.as_str()) {
            raw.as_bytes().chunks(2).map(|c| u8::from_str_radix(std::str::from_utf8(c).unwrap(), 16).unwrap()).collect()
        } else {
            mutate(&tpls[t], plan["op"].as_str().unwrap(), plan["pos"].as_str().unwrap(), plan["val"].as_str().unwrap())
        };
        let mut msg = String::new();
        let outcome = match guarded(|| run_entry(entry, &data)) {
            Ok(true) => "ok",
            Ok(false) => "err",
            Err(m) => {
                msg = m;
                "panic"
            }
        };
        out.emit(json!({"ev":"tot","msg":msg,"entry":entry,"op":plan["op"],"pos":plan["pos"],"val":plan["val"],"template":t + 1,"outcome":outcome,"len":data.len()}));
    }
}
