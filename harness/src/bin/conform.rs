use conform::{areas, util};

#[global_allocator]
static A: conform::alloc::Counting = conform::alloc::Counting;

fn main() {
    let args: Vec<String> = std::env::args().collect();
    if args.len() < 3 {
        eprintln!("usage: conform <area> replay <cases.ndjson> <trace.ndjson> [opts]");
        std::process::exit(2);
    }
    util::quiet_panics();
    let area = args[1].as_str();
    let mode = args[2].as_str();
    match (area, mode) {
        (_, "replay") => {
            let cases = util::read_cases(&args[3]);
            let mut out = util::TraceOut::create(&args[4]);
            match area {
                "headermap" => areas::headermap::replay(&cases, &mut out),
                "payload" => areas::payload::replay(&cases, &mut out),
                "h1" => areas::h1::replay(&cases, &mut out),
                "ws" => areas::ws::replay(&cases, &mut out),
                "totality" => areas::totality::replay(&cases, &mut out),
                "client" => areas::client::replay(&cases, &mut out),
                "h2" => areas::h2area::replay(&cases, &mut out),
                "coding" => areas::coding::replay(&cases, &mut out),
                "bodylimit" => areas::extract::replay(&cases, &mut out),
                "reqpool" => areas::reqpool::replay(&cases, &mut out),
                "routing" => areas::routing::replay(&cases, &mut out),
                "files" => areas::files::replay(&cases, &mut out),
                "router" => areas::router::replay(&cases, &mut out),
                "multipart" => areas::multipart::replay(&cases, &mut out),
                _ => {
                    eprintln!("unknown area {area}");
                    std::process::exit(2);
                }
            }
            println!("{{\"runs\":{},\"events\":{}}}", cases.len(), out.events);
            out.finish();
        }
        _ => {
            eprintln!("unknown area/mode {area} {mode}");
            std::process::exit(2);
        }
    }
}
