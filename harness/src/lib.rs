//! `conform`: executes cases generated from the TLA+ specifications against the real
//! actix-web code (path dependencies on /repo) and records NDJSON traces that TLC validates
//! against the property-level monitors (see /verif/DESIGN.md).
pub mod alloc;
pub mod areas;
pub mod util;
